
(** val negb : bool -> bool **)

let negb = function
| true -> false
| false -> true

type nat =
| O
| S of nat

(** val option_map : ('a1 -> 'a2) -> 'a1 option -> 'a2 option **)

let option_map f = function
| Some a -> Some (f a)
| None -> None

type ('a, 'b) sum =
| Inl of 'a
| Inr of 'b

(** val fst : ('a1 * 'a2) -> 'a1 **)

let fst = function
| (x, _) -> x

(** val snd : ('a1 * 'a2) -> 'a2 **)

let snd = function
| (_, y) -> y

(** val length : 'a1 list -> nat **)

let rec length = function
| [] -> O
| _ :: l' -> S (length l')

(** val app : 'a1 list -> 'a1 list -> 'a1 list **)

let rec app l m =
  match l with
  | [] -> m
  | a :: l1 -> a :: (app l1 m)

type comparison =
| Eq
| Lt
| Gt

(** val compOpp : comparison -> comparison **)

let compOpp = function
| Eq -> Eq
| Lt -> Gt
| Gt -> Lt

module Coq__1 = struct
 (** val add : nat -> nat -> nat **)
 let rec add n0 m =
   match n0 with
   | O -> m
   | S p -> S (add p m)
end
include Coq__1

(** val sub : nat -> nat -> nat **)

let rec sub n0 m =
  match n0 with
  | O -> n0
  | S k -> (match m with
            | O -> n0
            | S l -> sub k l)

type positive =
| XI of positive
| XO of positive
| XH

type n =
| N0
| Npos of positive

type z =
| Z0
| Zpos of positive
| Zneg of positive

module Nat =
 struct
  (** val eqb : nat -> nat -> bool **)

  let rec eqb n0 m =
    match n0 with
    | O -> (match m with
            | O -> true
            | S _ -> false)
    | S n' -> (match m with
               | O -> false
               | S m' -> eqb n' m')

  (** val leb : nat -> nat -> bool **)

  let rec leb n0 m =
    match n0 with
    | O -> true
    | S n' -> (match m with
               | O -> false
               | S m' -> leb n' m')

  (** val ltb : nat -> nat -> bool **)

  let ltb n0 m =
    leb (S n0) m

  (** val max : nat -> nat -> nat **)

  let rec max n0 m =
    match n0 with
    | O -> m
    | S n' -> (match m with
               | O -> n0
               | S m' -> S (max n' m'))
 end

module Pos =
 struct
  type mask =
  | IsNul
  | IsPos of positive
  | IsNeg
 end

module Coq_Pos =
 struct
  (** val succ : positive -> positive **)

  let rec succ = function
  | XI p -> XO (succ p)
  | XO p -> XI p
  | XH -> XO XH

  (** val add : positive -> positive -> positive **)

  let rec add x y =
    match x with
    | XI p ->
      (match y with
       | XI q0 -> XO (add_carry p q0)
       | XO q0 -> XI (add p q0)
       | XH -> XO (succ p))
    | XO p ->
      (match y with
       | XI q0 -> XI (add p q0)
       | XO q0 -> XO (add p q0)
       | XH -> XI p)
    | XH -> (match y with
             | XI q0 -> XO (succ q0)
             | XO q0 -> XI q0
             | XH -> XO XH)

  (** val add_carry : positive -> positive -> positive **)

  and add_carry x y =
    match x with
    | XI p ->
      (match y with
       | XI q0 -> XI (add_carry p q0)
       | XO q0 -> XO (add_carry p q0)
       | XH -> XI (succ p))
    | XO p ->
      (match y with
       | XI q0 -> XO (add_carry p q0)
       | XO q0 -> XI (add p q0)
       | XH -> XO (succ p))
    | XH ->
      (match y with
       | XI q0 -> XI (succ q0)
       | XO q0 -> XO (succ q0)
       | XH -> XI XH)

  (** val pred_double : positive -> positive **)

  let rec pred_double = function
  | XI p -> XI (XO p)
  | XO p -> XI (pred_double p)
  | XH -> XH

  type mask = Pos.mask =
  | IsNul
  | IsPos of positive
  | IsNeg

  (** val succ_double_mask : mask -> mask **)

  let succ_double_mask = function
  | IsNul -> IsPos XH
  | IsPos p -> IsPos (XI p)
  | IsNeg -> IsNeg

  (** val double_mask : mask -> mask **)

  let double_mask = function
  | IsPos p -> IsPos (XO p)
  | x0 -> x0

  (** val double_pred_mask : positive -> mask **)

  let double_pred_mask = function
  | XI p -> IsPos (XO (XO p))
  | XO p -> IsPos (XO (pred_double p))
  | XH -> IsNul

  (** val sub_mask : positive -> positive -> mask **)

  let rec sub_mask x y =
    match x with
    | XI p ->
      (match y with
       | XI q0 -> double_mask (sub_mask p q0)
       | XO q0 -> succ_double_mask (sub_mask p q0)
       | XH -> IsPos (XO p))
    | XO p ->
      (match y with
       | XI q0 -> succ_double_mask (sub_mask_carry p q0)
       | XO q0 -> double_mask (sub_mask p q0)
       | XH -> IsPos (pred_double p))
    | XH -> (match y with
             | XH -> IsNul
             | _ -> IsNeg)

  (** val sub_mask_carry : positive -> positive -> mask **)

  and sub_mask_carry x y =
    match x with
    | XI p ->
      (match y with
       | XI q0 -> succ_double_mask (sub_mask_carry p q0)
       | XO q0 -> double_mask (sub_mask p q0)
       | XH -> IsPos (pred_double p))
    | XO p ->
      (match y with
       | XI q0 -> double_mask (sub_mask_carry p q0)
       | XO q0 -> succ_double_mask (sub_mask_carry p q0)
       | XH -> double_pred_mask p)
    | XH -> IsNeg

  (** val sub : positive -> positive -> positive **)

  let sub x y =
    match sub_mask x y with
    | IsPos z0 -> z0
    | _ -> XH

  (** val mul : positive -> positive -> positive **)

  let rec mul x y =
    match x with
    | XI p -> add y (XO (mul p y))
    | XO p -> XO (mul p y)
    | XH -> y

  (** val size_nat : positive -> nat **)

  let rec size_nat = function
  | XI p0 -> S (size_nat p0)
  | XO p0 -> S (size_nat p0)
  | XH -> S O

  (** val size : positive -> positive **)

  let rec size = function
  | XI p0 -> succ (size p0)
  | XO p0 -> succ (size p0)
  | XH -> XH

  (** val compare_cont : comparison -> positive -> positive -> comparison **)

  let rec compare_cont r x y =
    match x with
    | XI p ->
      (match y with
       | XI q0 -> compare_cont r p q0
       | XO q0 -> compare_cont Gt p q0
       | XH -> Gt)
    | XO p ->
      (match y with
       | XI q0 -> compare_cont Lt p q0
       | XO q0 -> compare_cont r p q0
       | XH -> Gt)
    | XH -> (match y with
             | XH -> r
             | _ -> Lt)

  (** val compare : positive -> positive -> comparison **)

  let compare =
    compare_cont Eq

  (** val eqb : positive -> positive -> bool **)

  let rec eqb p q0 =
    match p with
    | XI p0 -> (match q0 with
                | XI q1 -> eqb p0 q1
                | _ -> false)
    | XO p0 -> (match q0 with
                | XO q1 -> eqb p0 q1
                | _ -> false)
    | XH -> (match q0 with
             | XH -> true
             | _ -> false)

  (** val ggcdn :
      nat -> positive -> positive -> positive * (positive * positive) **)

  let rec ggcdn n0 a b =
    match n0 with
    | O -> (XH, (a, b))
    | S n1 ->
      (match a with
       | XI a' ->
         (match b with
          | XI b' ->
            (match compare a' b' with
             | Eq -> (a, (XH, XH))
             | Lt ->
               let (g, p) = ggcdn n1 (sub b' a') a in
               let (ba, aa) = p in (g, (aa, (add aa (XO ba))))
             | Gt ->
               let (g, p) = ggcdn n1 (sub a' b') b in
               let (ab, bb) = p in (g, ((add bb (XO ab)), bb)))
          | XO b0 ->
            let (g, p) = ggcdn n1 a b0 in
            let (aa, bb) = p in (g, (aa, (XO bb)))
          | XH -> (XH, (a, XH)))
       | XO a0 ->
         (match b with
          | XI _ ->
            let (g, p) = ggcdn n1 a0 b in
            let (aa, bb) = p in (g, ((XO aa), bb))
          | XO b0 -> let (g, p) = ggcdn n1 a0 b0 in ((XO g), p)
          | XH -> (XH, (a, XH)))
       | XH -> (XH, (XH, b)))

  (** val ggcd : positive -> positive -> positive * (positive * positive) **)

  let ggcd a b =
    ggcdn (Coq__1.add (size_nat a) (size_nat b)) a b

  (** val iter_op : ('a1 -> 'a1 -> 'a1) -> positive -> 'a1 -> 'a1 **)

  let rec iter_op op p a =
    match p with
    | XI p0 -> op a (iter_op op p0 (op a a))
    | XO p0 -> iter_op op p0 (op a a)
    | XH -> a

  (** val to_nat : positive -> nat **)

  let to_nat x =
    iter_op Coq__1.add x (S O)

  (** val of_succ_nat : nat -> positive **)

  let rec of_succ_nat = function
  | O -> XH
  | S x -> succ (of_succ_nat x)
 end

module N =
 struct
  (** val succ_double : n -> n **)

  let succ_double = function
  | N0 -> Npos XH
  | Npos p -> Npos (XI p)

  (** val double : n -> n **)

  let double = function
  | N0 -> N0
  | Npos p -> Npos (XO p)

  (** val add : n -> n -> n **)

  let add n0 m =
    match n0 with
    | N0 -> m
    | Npos p -> (match m with
                 | N0 -> n0
                 | Npos q0 -> Npos (Coq_Pos.add p q0))

  (** val sub : n -> n -> n **)

  let sub n0 m =
    match n0 with
    | N0 -> N0
    | Npos n' ->
      (match m with
       | N0 -> n0
       | Npos m' ->
         (match Coq_Pos.sub_mask n' m' with
          | Coq_Pos.IsPos p -> Npos p
          | _ -> N0))

  (** val mul : n -> n -> n **)

  let mul n0 m =
    match n0 with
    | N0 -> N0
    | Npos p -> (match m with
                 | N0 -> N0
                 | Npos q0 -> Npos (Coq_Pos.mul p q0))

  (** val compare : n -> n -> comparison **)

  let compare n0 m =
    match n0 with
    | N0 -> (match m with
             | N0 -> Eq
             | Npos _ -> Lt)
    | Npos n' -> (match m with
                  | N0 -> Gt
                  | Npos m' -> Coq_Pos.compare n' m')

  (** val eqb : n -> n -> bool **)

  let eqb n0 m =
    match n0 with
    | N0 -> (match m with
             | N0 -> true
             | Npos _ -> false)
    | Npos p -> (match m with
                 | N0 -> false
                 | Npos q0 -> Coq_Pos.eqb p q0)

  (** val leb : n -> n -> bool **)

  let leb x y =
    match compare x y with
    | Gt -> false
    | _ -> true

  (** val size : n -> n **)

  let size = function
  | N0 -> N0
  | Npos p -> Npos (Coq_Pos.size p)

  (** val pos_div_eucl : positive -> n -> n * n **)

  let rec pos_div_eucl a b =
    match a with
    | XI a' ->
      let (q0, r) = pos_div_eucl a' b in
      let r' = succ_double r in
      if leb b r' then ((succ_double q0), (sub r' b)) else ((double q0), r')
    | XO a' ->
      let (q0, r) = pos_div_eucl a' b in
      let r' = double r in
      if leb b r' then ((succ_double q0), (sub r' b)) else ((double q0), r')
    | XH ->
      (match b with
       | N0 -> (N0, (Npos XH))
       | Npos p -> (match p with
                    | XH -> ((Npos XH), N0)
                    | _ -> (N0, (Npos XH))))

  (** val div_eucl : n -> n -> n * n **)

  let div_eucl a b =
    match a with
    | N0 -> (N0, N0)
    | Npos na -> (match b with
                  | N0 -> (N0, a)
                  | Npos _ -> pos_div_eucl na b)

  (** val div : n -> n -> n **)

  let div a b =
    fst (div_eucl a b)

  (** val modulo : n -> n -> n **)

  let modulo a b =
    snd (div_eucl a b)

  (** val to_nat : n -> nat **)

  let to_nat = function
  | N0 -> O
  | Npos p -> Coq_Pos.to_nat p

  (** val of_nat : nat -> n **)

  let of_nat = function
  | O -> N0
  | S n' -> Npos (Coq_Pos.of_succ_nat n')
 end

(** val zero : char **)

let zero = '\000'

(** val one : char **)

let one = '\001'

(** val shift : bool -> char -> char **)

let shift = fun b c -> Char.chr (((Char.code c) lsl 1) land 255 + if b then 1 else 0)

(** val ascii_of_pos : positive -> char **)

let ascii_of_pos =
  let rec loop n0 p =
    match n0 with
    | O -> zero
    | S n' ->
      (match p with
       | XI p' -> shift true (loop n' p')
       | XO p' -> shift false (loop n' p')
       | XH -> one)
  in loop (S (S (S (S (S (S (S (S O))))))))

(** val ascii_of_N : n -> char **)

let ascii_of_N = function
| N0 -> zero
| Npos p -> ascii_of_pos p

(** val ascii_of_nat : nat -> char **)

let ascii_of_nat a =
  ascii_of_N (N.of_nat a)

(** val n_of_digits : bool list -> n **)

let rec n_of_digits = function
| [] -> N0
| b :: l' ->
  N.add (if b then Npos XH else N0) (N.mul (Npos (XO XH)) (n_of_digits l'))

(** val n_of_ascii : char -> n **)

let n_of_ascii a =
  (* If this appears, you're using Ascii internals. Please don't *)
 (fun f c ->
  let n = Char.code c in
  let h i = (n land (1 lsl i)) <> 0 in
  f (h 0) (h 1) (h 2) (h 3) (h 4) (h 5) (h 6) (h 7))
    (fun a0 a1 a2 a3 a4 a5 a6 a7 ->
    n_of_digits
      (a0 :: (a1 :: (a2 :: (a3 :: (a4 :: (a5 :: (a6 :: (a7 :: [])))))))))
    a

(** val nat_of_ascii : char -> nat **)

let nat_of_ascii a =
  N.to_nat (n_of_ascii a)

(** val tl : 'a1 list -> 'a1 list **)

let tl = function
| [] -> []
| _ :: m -> m

(** val nth_error : 'a1 list -> nat -> 'a1 option **)

let rec nth_error l = function
| O -> (match l with
        | [] -> None
        | x :: _ -> Some x)
| S n1 -> (match l with
           | [] -> None
           | _ :: l0 -> nth_error l0 n1)

(** val map : ('a1 -> 'a2) -> 'a1 list -> 'a2 list **)

let rec map f = function
| [] -> []
| a :: t -> (f a) :: (map f t)

(** val fold_right : ('a2 -> 'a1 -> 'a1) -> 'a1 -> 'a2 list -> 'a1 **)

let rec fold_right f a0 = function
| [] -> a0
| b :: t -> f b (fold_right f a0 t)

(** val forallb : ('a1 -> bool) -> 'a1 list -> bool **)

let rec forallb f = function
| [] -> true
| a :: l0 -> (&&) (f a) (forallb f l0)

(** val filter : ('a1 -> bool) -> 'a1 list -> 'a1 list **)

let rec filter f = function
| [] -> []
| x :: l0 -> if f x then x :: (filter f l0) else filter f l0

(** val repeat : 'a1 -> nat -> 'a1 list **)

let rec repeat x = function
| O -> []
| S k -> x :: (repeat x k)

module Z =
 struct
  (** val double : z -> z **)

  let double = function
  | Z0 -> Z0
  | Zpos p -> Zpos (XO p)
  | Zneg p -> Zneg (XO p)

  (** val succ_double : z -> z **)

  let succ_double = function
  | Z0 -> Zpos XH
  | Zpos p -> Zpos (XI p)
  | Zneg p -> Zneg (Coq_Pos.pred_double p)

  (** val pred_double : z -> z **)

  let pred_double = function
  | Z0 -> Zneg XH
  | Zpos p -> Zpos (Coq_Pos.pred_double p)
  | Zneg p -> Zneg (XI p)

  (** val pos_sub : positive -> positive -> z **)

  let rec pos_sub x y =
    match x with
    | XI p ->
      (match y with
       | XI q0 -> double (pos_sub p q0)
       | XO q0 -> succ_double (pos_sub p q0)
       | XH -> Zpos (XO p))
    | XO p ->
      (match y with
       | XI q0 -> pred_double (pos_sub p q0)
       | XO q0 -> double (pos_sub p q0)
       | XH -> Zpos (Coq_Pos.pred_double p))
    | XH ->
      (match y with
       | XI q0 -> Zneg (XO q0)
       | XO q0 -> Zneg (Coq_Pos.pred_double q0)
       | XH -> Z0)

  (** val add : z -> z -> z **)

  let add x y =
    match x with
    | Z0 -> y
    | Zpos x' ->
      (match y with
       | Z0 -> x
       | Zpos y' -> Zpos (Coq_Pos.add x' y')
       | Zneg y' -> pos_sub x' y')
    | Zneg x' ->
      (match y with
       | Z0 -> x
       | Zpos y' -> pos_sub y' x'
       | Zneg y' -> Zneg (Coq_Pos.add x' y'))

  (** val opp : z -> z **)

  let opp = function
  | Z0 -> Z0
  | Zpos x0 -> Zneg x0
  | Zneg x0 -> Zpos x0

  (** val sub : z -> z -> z **)

  let sub m n0 =
    add m (opp n0)

  (** val mul : z -> z -> z **)

  let mul x y =
    match x with
    | Z0 -> Z0
    | Zpos x' ->
      (match y with
       | Z0 -> Z0
       | Zpos y' -> Zpos (Coq_Pos.mul x' y')
       | Zneg y' -> Zneg (Coq_Pos.mul x' y'))
    | Zneg x' ->
      (match y with
       | Z0 -> Z0
       | Zpos y' -> Zneg (Coq_Pos.mul x' y')
       | Zneg y' -> Zpos (Coq_Pos.mul x' y'))

  (** val compare : z -> z -> comparison **)

  let compare x y =
    match x with
    | Z0 -> (match y with
             | Z0 -> Eq
             | Zpos _ -> Lt
             | Zneg _ -> Gt)
    | Zpos x' -> (match y with
                  | Zpos y' -> Coq_Pos.compare x' y'
                  | _ -> Gt)
    | Zneg x' ->
      (match y with
       | Zneg y' -> compOpp (Coq_Pos.compare x' y')
       | _ -> Lt)

  (** val sgn : z -> z **)

  let sgn = function
  | Z0 -> Z0
  | Zpos _ -> Zpos XH
  | Zneg _ -> Zneg XH

  (** val leb : z -> z -> bool **)

  let leb x y =
    match compare x y with
    | Gt -> false
    | _ -> true

  (** val ltb : z -> z -> bool **)

  let ltb x y =
    match compare x y with
    | Lt -> true
    | _ -> false

  (** val eqb : z -> z -> bool **)

  let eqb x y =
    match x with
    | Z0 -> (match y with
             | Z0 -> true
             | _ -> false)
    | Zpos p -> (match y with
                 | Zpos q0 -> Coq_Pos.eqb p q0
                 | _ -> false)
    | Zneg p -> (match y with
                 | Zneg q0 -> Coq_Pos.eqb p q0
                 | _ -> false)

  (** val abs : z -> z **)

  let abs = function
  | Zneg p -> Zpos p
  | x -> x

  (** val to_nat : z -> nat **)

  let to_nat = function
  | Zpos p -> Coq_Pos.to_nat p
  | _ -> O

  (** val of_nat : nat -> z **)

  let of_nat = function
  | O -> Z0
  | S n1 -> Zpos (Coq_Pos.of_succ_nat n1)

  (** val of_N : n -> z **)

  let of_N = function
  | N0 -> Z0
  | Npos p -> Zpos p

  (** val to_pos : z -> positive **)

  let to_pos = function
  | Zpos p -> p
  | _ -> XH

  (** val quotrem : z -> z -> z * z **)

  let quotrem a b =
    match a with
    | Z0 -> (Z0, Z0)
    | Zpos a0 ->
      (match b with
       | Z0 -> (Z0, a)
       | Zpos b0 ->
         let (q0, r) = N.pos_div_eucl a0 (Npos b0) in ((of_N q0), (of_N r))
       | Zneg b0 ->
         let (q0, r) = N.pos_div_eucl a0 (Npos b0) in
         ((opp (of_N q0)), (of_N r)))
    | Zneg a0 ->
      (match b with
       | Z0 -> (Z0, a)
       | Zpos b0 ->
         let (q0, r) = N.pos_div_eucl a0 (Npos b0) in
         ((opp (of_N q0)), (opp (of_N r)))
       | Zneg b0 ->
         let (q0, r) = N.pos_div_eucl a0 (Npos b0) in
         ((of_N q0), (opp (of_N r))))

  (** val quot : z -> z -> z **)

  let quot a b =
    fst (quotrem a b)

  (** val rem : z -> z -> z **)

  let rem a b =
    snd (quotrem a b)

  (** val ggcd : z -> z -> z * (z * z) **)

  let ggcd a b =
    match a with
    | Z0 -> ((abs b), (Z0, (sgn b)))
    | Zpos a0 ->
      (match b with
       | Z0 -> ((abs a), ((sgn a), Z0))
       | Zpos b0 ->
         let (g, p) = Coq_Pos.ggcd a0 b0 in
         let (aa, bb) = p in ((Zpos g), ((Zpos aa), (Zpos bb)))
       | Zneg b0 ->
         let (g, p) = Coq_Pos.ggcd a0 b0 in
         let (aa, bb) = p in ((Zpos g), ((Zpos aa), (Zneg bb))))
    | Zneg a0 ->
      (match b with
       | Z0 -> ((abs a), ((sgn a), Z0))
       | Zpos b0 ->
         let (g, p) = Coq_Pos.ggcd a0 b0 in
         let (aa, bb) = p in ((Zpos g), ((Zneg aa), (Zpos bb)))
       | Zneg b0 ->
         let (g, p) = Coq_Pos.ggcd a0 b0 in
         let (aa, bb) = p in ((Zpos g), ((Zneg aa), (Zneg bb))))
 end

(** val zeq_bool : z -> z -> bool **)

let zeq_bool x y =
  match Z.compare x y with
  | Eq -> true
  | _ -> false

(** val eqb0 : char list -> char list -> bool **)

let rec eqb0 s1 s2 =
  match s1 with
  | [] -> (match s2 with
           | [] -> true
           | _::_ -> false)
  | c1::s1' ->
    (match s2 with
     | [] -> false
     | c2::s2' -> if (=) c1 c2 then eqb0 s1' s2' else false)

(** val append : char list -> char list -> char list **)

let rec append s1 s2 =
  match s1 with
  | [] -> s2
  | c::s1' -> c::(append s1' s2)

(** val length0 : char list -> nat **)

let rec length0 = function
| [] -> O
| _::s' -> S (length0 s')

(** val substring : nat -> nat -> char list -> char list **)

let rec substring n0 m s =
  match n0 with
  | O ->
    (match m with
     | O -> []
     | S m' -> (match s with
                | [] -> s
                | c::s' -> c::(substring O m' s')))
  | S n' -> (match s with
             | [] -> s
             | _::s' -> substring n' m s')

type q = { qnum : z; qden : positive }

(** val inject_Z : z -> q **)

let inject_Z x =
  { qnum = x; qden = XH }

(** val qeq_bool : q -> q -> bool **)

let qeq_bool x y =
  zeq_bool (Z.mul x.qnum (Zpos y.qden)) (Z.mul y.qnum (Zpos x.qden))

(** val qle_bool : q -> q -> bool **)

let qle_bool x y =
  Z.leb (Z.mul x.qnum (Zpos y.qden)) (Z.mul y.qnum (Zpos x.qden))

(** val qplus : q -> q -> q **)

let qplus x y =
  { qnum = (Z.add (Z.mul x.qnum (Zpos y.qden)) (Z.mul y.qnum (Zpos x.qden)));
    qden = (Coq_Pos.mul x.qden y.qden) }

(** val qmult : q -> q -> q **)

let qmult x y =
  { qnum = (Z.mul x.qnum y.qnum); qden = (Coq_Pos.mul x.qden y.qden) }

(** val qopp : q -> q **)

let qopp x =
  { qnum = (Z.opp x.qnum); qden = x.qden }

(** val qminus : q -> q -> q **)

let qminus x y =
  qplus x (qopp y)

(** val qinv : q -> q **)

let qinv x =
  match x.qnum with
  | Z0 -> { qnum = Z0; qden = XH }
  | Zpos p -> { qnum = (Zpos x.qden); qden = p }
  | Zneg p -> { qnum = (Zneg x.qden); qden = p }

(** val qdiv : q -> q -> q **)

let qdiv x y =
  qmult x (qinv y)

(** val qred : q -> q **)

let qred q0 =
  let { qnum = q1; qden = q2 } = q0 in
  let (r1, r2) = snd (Z.ggcd q1 (Zpos q2)) in
  { qnum = r1; qden = (Z.to_pos r2) }

type err =
| ErrValue
| ErrRuntime
| ErrAssert
| ErrNotImpl
| ErrKey
| ErrType
| ErrAttr
| ErrIndex
| ErrTranslation
| ErrOutOfFuel
| ErrOther of char list

type 'a result =
| OK of 'a
| Error of err

(** val err_name : err -> char list **)

let err_name = function
| ErrValue ->
  'V'::('a'::('l'::('u'::('e'::('E'::('r'::('r'::('o'::('r'::[])))))))))
| ErrRuntime ->
  'R'::('u'::('n'::('t'::('i'::('m'::('e'::('E'::('r'::('r'::('o'::('r'::[])))))))))))
| ErrAssert ->
  'A'::('s'::('s'::('e'::('r'::('t'::('i'::('o'::('n'::('E'::('r'::('r'::('o'::('r'::[])))))))))))))
| ErrNotImpl ->
  'N'::('o'::('t'::('I'::('m'::('p'::('l'::('e'::('m'::('e'::('n'::('t'::('e'::('d'::('E'::('r'::('r'::('o'::('r'::[]))))))))))))))))))
| ErrKey -> 'K'::('e'::('y'::('E'::('r'::('r'::('o'::('r'::[])))))))
| ErrType -> 'T'::('y'::('p'::('e'::('E'::('r'::('r'::('o'::('r'::[]))))))))
| ErrAttr ->
  'A'::('t'::('t'::('r'::('i'::('b'::('u'::('t'::('e'::('E'::('r'::('r'::('o'::('r'::[])))))))))))))
| ErrIndex ->
  'I'::('n'::('d'::('e'::('x'::('E'::('r'::('r'::('o'::('r'::[])))))))))
| ErrTranslation ->
  'x'::('A'::('O'::('D'::('T'::('r'::('a'::('n'::('s'::('l'::('a'::('t'::('i'::('o'::('n'::('E'::('r'::('r'::('o'::('r'::[])))))))))))))))))))
| ErrOutOfFuel ->
  'O'::('u'::('t'::('O'::('f'::('F'::('u'::('e'::('l'::[]))))))))
| ErrOther t -> t

(** val mem_str : char list -> char list list -> bool **)

let rec mem_str x = function
| [] -> false
| y :: r -> if eqb0 x y then true else mem_str x r

(** val list_str_eqb : char list list -> char list list -> bool **)

let rec list_str_eqb a b =
  match a with
  | [] -> (match b with
           | [] -> true
           | _ :: _ -> false)
  | x :: a' ->
    (match b with
     | [] -> false
     | y :: b' -> (&&) (eqb0 x y) (list_str_eqb a' b'))

(** val digit_char : nat -> char **)

let digit_char n0 =
  ascii_of_nat
    (add (S (S (S (S (S (S (S (S (S (S (S (S (S (S (S (S (S (S (S (S (S (S (S
      (S (S (S (S (S (S (S (S (S (S (S (S (S (S (S (S (S (S (S (S (S (S (S (S
      (S O)))))))))))))))))))))))))))))))))))))))))))))))) n0)

(** val dec_N_fuel : nat -> n -> char list -> char list **)

let rec dec_N_fuel fuel n0 acc =
  match fuel with
  | O -> acc
  | S f ->
    let d = N.to_nat (N.modulo n0 (Npos (XO (XI (XO XH))))) in
    let acc' = (digit_char d)::acc in
    if N.eqb (N.div n0 (Npos (XO (XI (XO XH))))) N0
    then acc'
    else dec_N_fuel f (N.div n0 (Npos (XO (XI (XO XH))))) acc'

(** val dec_N : n -> char list **)

let dec_N n0 =
  dec_N_fuel (S (N.to_nat (N.size n0))) n0 []

(** val dec_Z : z -> char list **)

let dec_Z = function
| Z0 -> '0'::[]
| Zpos p -> dec_N (Npos p)
| Zneg p -> append ('-'::[]) (dec_N (Npos p))

(** val dec_nat : nat -> char list **)

let dec_nat n0 =
  dec_N (N.of_nat n0)

(** val is_digit : char -> bool **)

let is_digit c =
  let n0 = nat_of_ascii c in
  (&&)
    (Nat.leb (S (S (S (S (S (S (S (S (S (S (S (S (S (S (S (S (S (S (S (S (S
      (S (S (S (S (S (S (S (S (S (S (S (S (S (S (S (S (S (S (S (S (S (S (S (S
      (S (S (S O)))))))))))))))))))))))))))))))))))))))))))))))) n0)
    (Nat.leb n0 (S (S (S (S (S (S (S (S (S (S (S (S (S (S (S (S (S (S (S (S
      (S (S (S (S (S (S (S (S (S (S (S (S (S (S (S (S (S (S (S (S (S (S (S (S
      (S (S (S (S (S (S (S (S (S (S (S (S (S
      O))))))))))))))))))))))))))))))))))))))))))))))))))))))))))

(** val parse_N_acc : char list -> n -> n option **)

let rec parse_N_acc s acc =
  match s with
  | [] -> Some acc
  | c::r ->
    if is_digit c
    then parse_N_acc r
           (N.add (N.mul acc (Npos (XO (XI (XO XH)))))
             (N.of_nat
               (sub (nat_of_ascii c) (S (S (S (S (S (S (S (S (S (S (S (S (S
                 (S (S (S (S (S (S (S (S (S (S (S (S (S (S (S (S (S (S (S (S
                 (S (S (S (S (S (S (S (S (S (S (S (S (S (S (S
                 O)))))))))))))))))))))))))))))))))))))))))))))))))))
    else None

(** val parse_N : char list -> n option **)

let parse_N s = match s with
| [] -> None
| _::_ -> parse_N_acc s N0

(** val parse_Z : char list -> z option **)

let parse_Z s = match s with
| [] -> option_map Z.of_N (parse_N s)
| a::r ->
  (* If this appears, you're using Ascii internals. Please don't *)
 (fun f c ->
  let n = Char.code c in
  let h i = (n land (1 lsl i)) <> 0 in
  f (h 0) (h 1) (h 2) (h 3) (h 4) (h 5) (h 6) (h 7))
    (fun b b0 b1 b2 b3 b4 b5 b6 ->
    if b
    then if b0
         then option_map Z.of_N (parse_N s)
         else if b1
              then if b2
                   then if b3
                        then option_map Z.of_N (parse_N s)
                        else if b4
                             then if b5
                                  then option_map Z.of_N (parse_N s)
                                  else if b6
                                       then option_map Z.of_N (parse_N s)
                                       else option_map (fun n0 ->
                                              Z.opp (Z.of_N n0)) (parse_N r)
                             else option_map Z.of_N (parse_N s)
                   else option_map Z.of_N (parse_N s)
              else option_map Z.of_N (parse_N s)
    else option_map Z.of_N (parse_N s))
    a

type sexp =
| SAtom of char list
| SList of sexp list

(** val s_strs : char list list -> sexp **)

let s_strs l =
  SList (map (fun x -> SAtom x) l)

(** val s_Z : z -> sexp **)

let s_Z z0 =
  SAtom (dec_Z z0)

(** val s_nat : nat -> sexp **)

let s_nat n0 =
  SAtom (dec_nat n0)

(** val s_bool : bool -> sexp **)

let s_bool b =
  SAtom
    (if b
     then 't'::('r'::('u'::('e'::[])))
     else 'f'::('a'::('l'::('s'::('e'::[])))))

(** val s_tag : char list -> sexp list -> sexp **)

let s_tag t l =
  SList ((SAtom t) :: l)

(** val s_err : err -> sexp **)

let s_err e =
  s_tag ('e'::('r'::('r'::('o'::('r'::[]))))) ((SAtom (err_name e)) :: [])

(** val s_result : ('a1 -> sexp) -> 'a1 result -> sexp **)

let s_result enc = function
| OK a -> s_tag ('o'::('k'::[])) ((enc a) :: [])
| Error e -> s_err e

(** val d_str : sexp -> char list option **)

let d_str = function
| SAtom a -> Some a
| SList _ -> None

(** val d_list : (sexp -> 'a1 option) -> sexp list -> 'a1 list option **)

let rec d_list d = function
| [] -> Some []
| x :: r ->
  (match d x with
   | Some a ->
     (match d_list d r with
      | Some r' -> Some (a :: r')
      | None -> None)
   | None -> None)

(** val d_strs : sexp -> char list list option **)

let d_strs = function
| SAtom _ -> None
| SList l -> d_list d_str l

(** val d_Z : sexp -> z option **)

let d_Z = function
| SAtom a -> parse_Z a
| SList _ -> None

(** val d_nat : sexp -> nat option **)

let d_nat s =
  option_map Z.to_nat (d_Z s)

(** val d_bool : sexp -> bool option **)

let d_bool = function
| SAtom s0 ->
  (match s0 with
   | [] -> None
   | a::s1 ->
     (* If this appears, you're using Ascii internals. Please don't *)
 (fun f c ->
  let n = Char.code c in
  let h i = (n land (1 lsl i)) <> 0 in
  f (h 0) (h 1) (h 2) (h 3) (h 4) (h 5) (h 6) (h 7))
       (fun b b0 b1 b2 b3 b4 b5 b6 ->
       if b
       then None
       else if b0
            then if b1
                 then if b2
                      then None
                      else if b3
                           then None
                           else if b4
                                then if b5
                                     then if b6
                                          then None
                                          else (match s1 with
                                                | [] -> None
                                                | a0::s2 ->
                                                  (* If this appears, you're using Ascii internals. Please don't *)
 (fun f c ->
  let n = Char.code c in
  let h i = (n land (1 lsl i)) <> 0 in
  f (h 0) (h 1) (h 2) (h 3) (h 4) (h 5) (h 6) (h 7))
                                                    (fun b7 b8 b9 b10 b11 b12 b13 b14 ->
                                                    if b7
                                                    then if b8
                                                         then None
                                                         else if b9
                                                              then None
                                                              else if b10
                                                                   then None
                                                                   else 
                                                                    if b11
                                                                    then None
                                                                    else 
                                                                    if b12
                                                                    then 
                                                                    if b13
                                                                    then 
                                                                    if b14
                                                                    then None
                                                                    else 
                                                                    (match s2 with
                                                                    | [] ->
                                                                    None
                                                                    | a1::s3 ->
                                                                    (* If this appears, you're using Ascii internals. Please don't *)
 (fun f c ->
  let n = Char.code c in
  let h i = (n land (1 lsl i)) <> 0 in
  f (h 0) (h 1) (h 2) (h 3) (h 4) (h 5) (h 6) (h 7))
                                                                    (fun b15 b16 b17 b18 b19 b20 b21 b22 ->
                                                                    if b15
                                                                    then None
                                                                    else 
                                                                    if b16
                                                                    then None
                                                                    else 
                                                                    if b17
                                                                    then 
                                                                    if b18
                                                                    then 
                                                                    if b19
                                                                    then None
                                                                    else 
                                                                    if b20
                                                                    then 
                                                                    if b21
                                                                    then 
                                                                    if b22
                                                                    then None
                                                                    else 
                                                                    (match s3 with
                                                                    | [] ->
                                                                    None
                                                                    | a2::s4 ->
                                                                    (* If this appears, you're using Ascii internals. Please don't *)
 (fun f c ->
  let n = Char.code c in
  let h i = (n land (1 lsl i)) <> 0 in
  f (h 0) (h 1) (h 2) (h 3) (h 4) (h 5) (h 6) (h 7))
                                                                    (fun b23 b24 b25 b26 b27 b28 b29 b30 ->
                                                                    if b23
                                                                    then 
                                                                    if b24
                                                                    then 
                                                                    if b25
                                                                    then None
                                                                    else 
                                                                    if b26
                                                                    then None
                                                                    else 
                                                                    if b27
                                                                    then 
                                                                    if b28
                                                                    then 
                                                                    if b29
                                                                    then 
                                                                    if b30
                                                                    then None
                                                                    else 
                                                                    (match s4 with
                                                                    | [] ->
                                                                    None
                                                                    | a3::s5 ->
                                                                    (* If this appears, you're using Ascii internals. Please don't *)
 (fun f c ->
  let n = Char.code c in
  let h i = (n land (1 lsl i)) <> 0 in
  f (h 0) (h 1) (h 2) (h 3) (h 4) (h 5) (h 6) (h 7))
                                                                    (fun b31 b32 b33 b34 b35 b36 b37 b38 ->
                                                                    if b31
                                                                    then 
                                                                    if b32
                                                                    then None
                                                                    else 
                                                                    if b33
                                                                    then 
                                                                    if b34
                                                                    then None
                                                                    else 
                                                                    if b35
                                                                    then None
                                                                    else 
                                                                    if b36
                                                                    then 
                                                                    if b37
                                                                    then 
                                                                    if b38
                                                                    then None
                                                                    else 
                                                                    (match s5 with
                                                                    | [] ->
                                                                    Some false
                                                                    | _::_ ->
                                                                    None)
                                                                    else None
                                                                    else None
                                                                    else None
                                                                    else None)
                                                                    a3)
                                                                    else None
                                                                    else None
                                                                    else None
                                                                    else None
                                                                    else None)
                                                                    a2)
                                                                    else None
                                                                    else None
                                                                    else None
                                                                    else None)
                                                                    a1)
                                                                    else None
                                                                    else None
                                                    else None)
                                                    a0)
                                     else None
                                else None
                 else None
            else if b1
                 then if b2
                      then None
                      else if b3
                           then if b4
                                then if b5
                                     then if b6
                                          then None
                                          else (match s1 with
                                                | [] -> None
                                                | a0::s2 ->
                                                  (* If this appears, you're using Ascii internals. Please don't *)
 (fun f c ->
  let n = Char.code c in
  let h i = (n land (1 lsl i)) <> 0 in
  f (h 0) (h 1) (h 2) (h 3) (h 4) (h 5) (h 6) (h 7))
                                                    (fun b7 b8 b9 b10 b11 b12 b13 b14 ->
                                                    if b7
                                                    then None
                                                    else if b8
                                                         then if b9
                                                              then None
                                                              else if b10
                                                                   then None
                                                                   else 
                                                                    if b11
                                                                    then 
                                                                    if b12
                                                                    then 
                                                                    if b13
                                                                    then 
                                                                    if b14
                                                                    then None
                                                                    else 
                                                                    (match s2 with
                                                                    | [] ->
                                                                    None
                                                                    | a1::s3 ->
                                                                    (* If this appears, you're using Ascii internals. Please don't *)
 (fun f c ->
  let n = Char.code c in
  let h i = (n land (1 lsl i)) <> 0 in
  f (h 0) (h 1) (h 2) (h 3) (h 4) (h 5) (h 6) (h 7))
                                                                    (fun b15 b16 b17 b18 b19 b20 b21 b22 ->
                                                                    if b15
                                                                    then 
                                                                    if b16
                                                                    then None
                                                                    else 
                                                                    if b17
                                                                    then 
                                                                    if b18
                                                                    then None
                                                                    else 
                                                                    if b19
                                                                    then 
                                                                    if b20
                                                                    then 
                                                                    if b21
                                                                    then 
                                                                    if b22
                                                                    then None
                                                                    else 
                                                                    (match s3 with
                                                                    | [] ->
                                                                    None
                                                                    | a2::s4 ->
                                                                    (* If this appears, you're using Ascii internals. Please don't *)
 (fun f c ->
  let n = Char.code c in
  let h i = (n land (1 lsl i)) <> 0 in
  f (h 0) (h 1) (h 2) (h 3) (h 4) (h 5) (h 6) (h 7))
                                                                    (fun b23 b24 b25 b26 b27 b28 b29 b30 ->
                                                                    if b23
                                                                    then 
                                                                    if b24
                                                                    then None
                                                                    else 
                                                                    if b25
                                                                    then 
                                                                    if b26
                                                                    then None
                                                                    else 
                                                                    if b27
                                                                    then None
                                                                    else 
                                                                    if b28
                                                                    then 
                                                                    if b29
                                                                    then 
                                                                    if b30
                                                                    then None
                                                                    else 
                                                                    (match s4 with
                                                                    | [] ->
                                                                    Some true
                                                                    | _::_ ->
                                                                    None)
                                                                    else None
                                                                    else None
                                                                    else None
                                                                    else None)
                                                                    a2)
                                                                    else None
                                                                    else None
                                                                    else None
                                                                    else None
                                                                    else None)
                                                                    a1)
                                                                    else None
                                                                    else None
                                                                    else None
                                                         else None)
                                                    a0)
                                     else None
                                else None
                           else None
                 else None)
       a)
| SList _ -> None

(** val bad_input : sexp **)

let bad_input =
  s_tag ('b'::('a'::('d'::('-'::('i'::('n'::('p'::('u'::('t'::[]))))))))) []

type jblock = { jb_name : char list; jb_script : char list list;
                jb_deps : char list list }

type entry = char list * (char list list * char list list)

type table = entry list

(** val tget :
    char list -> table -> (char list list * char list list) option **)

let rec tget n0 = function
| [] -> None
| e :: r -> let (k, v) = e in if eqb0 n0 k then Some v else tget n0 r

(** val textend : char list -> char list list -> table -> table **)

let rec textend n0 ds = function
| [] -> []
| e :: r ->
  let (k, p) = e in
  let (s, d) = p in
  if eqb0 n0 k
  then (k, (s, (app d ds))) :: r
  else (k, (s, d)) :: (textend n0 ds r)

(** val step1 : table -> jblock -> table result **)

let step1 t b =
  match tget b.jb_name t with
  | Some p ->
    let (s0, _) = p in
    if list_str_eqb b.jb_script s0
    then OK (textend b.jb_name b.jb_deps t)
    else Error ErrValue
  | None -> OK (app t ((b.jb_name, (b.jb_script, b.jb_deps)) :: []))

(** val phase1 : jblock list -> table -> table result **)

let rec phase1 bs t =
  match bs with
  | [] -> OK t
  | b :: r -> (match step1 t b with
               | OK t' -> phase1 r t'
               | Error e -> Error e)

(** val has_key : char list -> table -> bool **)

let has_key n0 t =
  match tget n0 t with
  | Some _ -> true
  | None -> false

(** val deps_present : table -> bool **)

let deps_present t =
  forallb (fun e -> forallb (fun d -> has_key d t) (snd (snd e))) t

(** val one_pass :
    table -> char list list -> char list list -> bool -> (char list
    list * char list list) * bool **)

let rec one_pass rest seen out emitted =
  match rest with
  | [] -> ((seen, out), emitted)
  | e :: r ->
    let (n0, p) = e in
    let (scr, ds) = p in
    if (&&) (negb (mem_str n0 seen)) (forallb (fun d -> mem_str d seen) ds)
    then one_pass r (app seen (n0 :: [])) (app out scr) true
    else one_pass r seen out emitted

(** val emit_loop :
    nat -> table -> char list list -> char list list -> char list list result **)

let rec emit_loop fuel t seen out =
  if Nat.ltb (length seen) (length t)
  then (match fuel with
        | O -> Error ErrOutOfFuel
        | S f ->
          let (p, b) = one_pass t seen out false in
          let (seen', out') = p in
          if b then emit_loop f t seen' out' else Error ErrValue)
  else OK out

(** val gen : jblock list -> char list list result **)

let gen bs =
  match phase1 bs [] with
  | OK t ->
    if deps_present t
    then emit_loop (S (length t)) t [] []
    else Error ErrValue
  | Error e -> Error e

(** val d_jblock : sexp -> jblock option **)

let d_jblock = function
| SAtom _ -> None
| SList l ->
  (match l with
   | [] -> None
   | s0 :: l0 ->
     (match s0 with
      | SAtom n0 ->
        (match l0 with
         | [] -> None
         | sc :: l1 ->
           (match l1 with
            | [] -> None
            | dp :: l2 ->
              (match l2 with
               | [] ->
                 (match d_strs sc with
                  | Some sc' ->
                    (match d_strs dp with
                     | Some dp' ->
                       Some { jb_name = n0; jb_script = sc'; jb_deps = dp' }
                     | None -> None)
                  | None -> None)
               | _ :: _ -> None)))
      | SList _ -> None))

(** val run_gen : sexp -> sexp **)

let run_gen = function
| SAtom _ -> bad_input
| SList l ->
  (match d_list d_jblock l with
   | Some bs -> s_result s_strs (gen bs)
   | None -> bad_input)

type mrow = { m_py : char list; m_cpp : char list; m_inc : char list list;
              m_ret : char list }

type menv = { e_rows : mrow list; e_module : char list list;
              e_builtins : (char list * char list) list }

(** val lookup_row : char list -> mrow list -> mrow option **)

let rec lookup_row k = function
| [] -> None
| r :: rest ->
  (match lookup_row k rest with
   | Some r' -> Some r'
   | None -> if eqb0 k r.m_py then Some r else None)

(** val assoc :
    char list -> (char list * char list) list -> char list option **)

let rec assoc k = function
| [] -> None
| p :: r -> let (a, b) = p in if eqb0 k a then Some b else assoc k r

type resolution =
| RName of char list
| RCrash

(** val resolve : menv -> char list -> resolution **)

let resolve e n0 =
  if mem_str n0 e.e_module
  then RCrash
  else (match assoc n0 e.e_builtins with
        | Some m ->
          (match m with
           | [] -> RName (append m (append ('.'::[]) n0))
           | a::s ->
             (* If this appears, you're using Ascii internals. Please don't *)
 (fun f c ->
  let n = Char.code c in
  let h i = (n land (1 lsl i)) <> 0 in
  f (h 0) (h 1) (h 2) (h 3) (h 4) (h 5) (h 6) (h 7))
               (fun b b0 b1 b2 b3 b4 b5 b6 ->
               if b
               then if b0
                    then RName (append m (append ('.'::[]) n0))
                    else if b1
                         then if b2
                              then if b3
                                   then RName (append m (append ('.'::[]) n0))
                                   else if b4
                                        then if b5
                                             then RName
                                                    (append m
                                                      (append ('.'::[]) n0))
                                             else if b6
                                                  then RName
                                                         (append m
                                                           (append ('.'::[])
                                                             n0))
                                                  else (match s with
                                                        | [] -> RCrash
                                                        | _::_ ->
                                                          RName
                                                            (append m
                                                              (append
                                                                ('.'::[]) n0)))
                                        else RName
                                               (append m
                                                 (append ('.'::[]) n0))
                              else RName (append m (append ('.'::[]) n0))
                         else RName (append m (append ('.'::[]) n0))
               else RName (append m (append ('.'::[]) n0)))
               a)
        | None -> RName n0)

(** val find_row : menv -> char list -> mrow option **)

let find_row e n0 =
  match resolve e n0 with
  | RName q0 -> lookup_row q0 e.e_rows
  | RCrash -> None

(** val acceptable : char list -> char list -> bool **)

let acceptable n0 cpp =
  (||)
    ((||) (eqb0 cpp (append ('s'::('t'::('d'::(':'::(':'::[]))))) n0))
      ((&&) (eqb0 n0 ('l'::('n'::[])))
        (eqb0 cpp ('s'::('t'::('d'::(':'::(':'::('l'::('o'::('g'::[])))))))))))
    ((&&) (eqb0 n0 ('a'::('b'::('s'::[]))))
      ((||)
        (eqb0 cpp
          ('s'::('t'::('d'::(':'::(':'::('f'::('a'::('b'::('s'::[]))))))))))
        (eqb0 cpp ('s'::('t'::('d'::(':'::(':'::('a'::('b'::('s'::[])))))))))))

(** val cmath_sig : (char list * (nat * bool)) list **)

let cmath_sig =
  (('s'::('i'::('n'::[]))), ((S O), false)) :: ((('c'::('o'::('s'::[]))), ((S
    O), false)) :: ((('t'::('a'::('n'::[]))), ((S O),
    false)) :: ((('a'::('c'::('o'::('s'::[])))), ((S O),
    false)) :: ((('a'::('s'::('i'::('n'::[])))), ((S O),
    false)) :: ((('a'::('t'::('a'::('n'::[])))), ((S O),
    false)) :: ((('a'::('t'::('a'::('n'::('2'::[]))))), ((S (S O)),
    false)) :: ((('s'::('i'::('n'::('h'::[])))), ((S O),
    false)) :: ((('c'::('o'::('s'::('h'::[])))), ((S O),
    false)) :: ((('t'::('a'::('n'::('h'::[])))), ((S O),
    false)) :: ((('a'::('s'::('i'::('n'::('h'::[]))))), ((S O),
    false)) :: ((('a'::('c'::('o'::('s'::('h'::[]))))), ((S O),
    false)) :: ((('a'::('t'::('a'::('n'::('h'::[]))))), ((S O),
    false)) :: ((('e'::('x'::('p'::[]))), ((S O),
    false)) :: ((('l'::('d'::('e'::('x'::('p'::[]))))), ((S (S O)),
    false)) :: ((('l'::('o'::('g'::[]))), ((S O),
    false)) :: ((('l'::('n'::[])), ((S O),
    false)) :: ((('l'::('o'::('g'::('1'::('0'::[]))))), ((S O),
    false)) :: ((('e'::('x'::('p'::('2'::[])))), ((S O),
    false)) :: ((('e'::('x'::('p'::('m'::('1'::[]))))), ((S O),
    false)) :: ((('i'::('l'::('o'::('g'::('b'::[]))))), ((S O),
    false)) :: ((('l'::('o'::('g'::('1'::('p'::[]))))), ((S O),
    false)) :: ((('l'::('o'::('g'::('2'::[])))), ((S O),
    false)) :: ((('s'::('c'::('a'::('l'::('b'::('n'::[])))))), ((S (S O)),
    false)) :: ((('s'::('c'::('a'::('l'::('b'::('l'::('n'::[]))))))), ((S (S
    O)), false)) :: ((('p'::('o'::('w'::[]))), ((S (S O)),
    false)) :: ((('s'::('q'::('r'::('t'::[])))), ((S O),
    false)) :: ((('c'::('b'::('r'::('t'::[])))), ((S O),
    false)) :: ((('h'::('y'::('p'::('o'::('t'::[]))))), ((S (S O)),
    false)) :: ((('e'::('r'::('f'::[]))), ((S O),
    false)) :: ((('e'::('r'::('f'::('c'::[])))), ((S O),
    false)) :: ((('t'::('g'::('a'::('m'::('m'::('a'::[])))))), ((S O),
    false)) :: ((('l'::('g'::('a'::('m'::('m'::('a'::[])))))), ((S O),
    false)) :: ((('c'::('e'::('i'::('l'::[])))), ((S O),
    false)) :: ((('f'::('l'::('o'::('o'::('r'::[]))))), ((S O),
    false)) :: ((('f'::('m'::('o'::('d'::[])))), ((S (S O)),
    false)) :: ((('t'::('r'::('u'::('n'::('c'::[]))))), ((S O),
    false)) :: ((('r'::('o'::('u'::('n'::('d'::[]))))), ((S O),
    false)) :: ((('r'::('i'::('n'::('t'::[])))), ((S O),
    false)) :: ((('n'::('e'::('a'::('r'::('b'::('y'::('i'::('n'::('t'::[]))))))))),
    ((S O),
    false)) :: ((('r'::('e'::('m'::('a'::('i'::('n'::('d'::('e'::('r'::[]))))))))),
    ((S (S O)), false)) :: ((('r'::('e'::('m'::('q'::('u'::('o'::[])))))),
    ((S (S (S O))),
    true)) :: ((('c'::('o'::('p'::('y'::('s'::('i'::('g'::('n'::[])))))))),
    ((S (S O)), false)) :: ((('n'::('a'::('n'::[]))), ((S O),
    false)) :: ((('n'::('e'::('x'::('t'::('a'::('f'::('t'::('e'::('r'::[]))))))))),
    ((S (S O)),
    false)) :: ((('n'::('e'::('x'::('t'::('t'::('o'::('w'::('a'::('r'::('d'::[])))))))))),
    ((S (S O)), false)) :: ((('f'::('d'::('i'::('m'::[])))), ((S (S O)),
    false)) :: ((('f'::('m'::('a'::('x'::[])))), ((S (S O)),
    false)) :: ((('f'::('m'::('i'::('n'::[])))), ((S (S O)),
    false)) :: ((('f'::('a'::('b'::('s'::[])))), ((S O),
    false)) :: ((('a'::('b'::('s'::[]))), ((S O),
    false)) :: ((('f'::('m'::('a'::[]))), ((S (S (S O))),
    false)) :: [])))))))))))))))))))))))))))))))))))))))))))))))))))

(** val sig_of :
    char list -> (char list * (nat * bool)) list -> (nat * bool) option **)

let rec sig_of n0 = function
| [] -> None
| p :: r -> let (a, b) = p in if eqb0 n0 a then Some b else sig_of n0 r

(** val callable_from_query : char list -> bool **)

let callable_from_query n0 =
  match sig_of n0 cmath_sig with
  | Some p -> let (_, b) = p in if b then false else true
  | None -> false

(** val doc_ok : menv -> char list -> bool **)

let doc_ok e n0 =
  match find_row e n0 with
  | Some r ->
    (&&)
      ((&&)
        ((&&) (acceptable n0 r.m_cpp)
          (mem_str ('c'::('m'::('a'::('t'::('h'::[]))))) r.m_inc))
        (eqb0 r.m_ret ('d'::('o'::('u'::('b'::('l'::('e'::[]))))))))
      (callable_from_query n0)
  | None -> false

(** val s_row : mrow -> sexp **)

let s_row r =
  SList ((SAtom r.m_py) :: ((SAtom r.m_cpp) :: ((s_strs r.m_inc) :: ((SAtom
    r.m_ret) :: []))))

(** val audit : menv -> char list list -> sexp **)

let audit e doc =
  SList
    (map (fun n0 -> SList ((SAtom
      n0) :: ((match resolve e n0 with
               | RName q0 -> SAtom q0
               | RCrash ->
                 SAtom ('<'::('c'::('r'::('a'::('s'::('h'::('>'::[])))))))) :: ((
      match find_row e n0 with
      | Some r -> s_row r
      | None -> SList []) :: ((s_bool (doc_ok e n0)) :: ((match sig_of n0
                                                                  cmath_sig with
                                                          | Some p0 ->
                                                            let (k, p) = p0 in
                                                            SList
                                                            ((s_nat k) :: (
                                                            (s_bool p) :: []))
                                                          | None -> SList []) :: []))))))
      doc)

(** val math_rows : mrow list **)

let math_rows =
  { m_py = ('s'::('i'::('n'::[]))); m_cpp =
    ('s'::('t'::('d'::(':'::(':'::('s'::('i'::('n'::[])))))))); m_inc =
    (('c'::('m'::('a'::('t'::('h'::[]))))) :: []); m_ret =
    ('d'::('o'::('u'::('b'::('l'::('e'::[])))))) } :: ({ m_py =
    ('c'::('o'::('s'::[]))); m_cpp =
    ('s'::('t'::('d'::(':'::(':'::('c'::('o'::('s'::[])))))))); m_inc =
    (('c'::('m'::('a'::('t'::('h'::[]))))) :: []); m_ret =
    ('d'::('o'::('u'::('b'::('l'::('e'::[])))))) } :: ({ m_py =
    ('t'::('a'::('n'::[]))); m_cpp =
    ('s'::('t'::('d'::(':'::(':'::('t'::('a'::('n'::[])))))))); m_inc =
    (('c'::('m'::('a'::('t'::('h'::[]))))) :: []); m_ret =
    ('d'::('o'::('u'::('b'::('l'::('e'::[])))))) } :: ({ m_py =
    ('a'::('c'::('o'::('s'::[])))); m_cpp =
    ('s'::('t'::('d'::(':'::(':'::('a'::('c'::('o'::('s'::[])))))))));
    m_inc = (('c'::('m'::('a'::('t'::('h'::[]))))) :: []); m_ret =
    ('d'::('o'::('u'::('b'::('l'::('e'::[])))))) } :: ({ m_py =
    ('a'::('s'::('i'::('n'::[])))); m_cpp =
    ('s'::('t'::('d'::(':'::(':'::('a'::('s'::('i'::('n'::[])))))))));
    m_inc = (('c'::('m'::('a'::('t'::('h'::[]))))) :: []); m_ret =
    ('d'::('o'::('u'::('b'::('l'::('e'::[])))))) } :: ({ m_py =
    ('a'::('t'::('a'::('n'::[])))); m_cpp =
    ('s'::('t'::('d'::(':'::(':'::('a'::('t'::('a'::('n'::[])))))))));
    m_inc = (('c'::('m'::('a'::('t'::('h'::[]))))) :: []); m_ret =
    ('d'::('o'::('u'::('b'::('l'::('e'::[])))))) } :: ({ m_py =
    ('a'::('t'::('a'::('n'::('2'::[]))))); m_cpp =
    ('s'::('t'::('d'::(':'::(':'::('a'::('t'::('a'::('n'::('2'::[]))))))))));
    m_inc = (('c'::('m'::('a'::('t'::('h'::[]))))) :: []); m_ret =
    ('d'::('o'::('u'::('b'::('l'::('e'::[])))))) } :: ({ m_py =
    ('s'::('i'::('n'::('h'::[])))); m_cpp =
    ('s'::('t'::('d'::(':'::(':'::('s'::('i'::('n'::('h'::[])))))))));
    m_inc = (('c'::('m'::('a'::('t'::('h'::[]))))) :: []); m_ret =
    ('d'::('o'::('u'::('b'::('l'::('e'::[])))))) } :: ({ m_py =
    ('c'::('o'::('s'::('h'::[])))); m_cpp =
    ('s'::('t'::('d'::(':'::(':'::('c'::('o'::('s'::('h'::[])))))))));
    m_inc = (('c'::('m'::('a'::('t'::('h'::[]))))) :: []); m_ret =
    ('d'::('o'::('u'::('b'::('l'::('e'::[])))))) } :: ({ m_py =
    ('t'::('a'::('n'::('h'::[])))); m_cpp =
    ('s'::('t'::('d'::(':'::(':'::('t'::('a'::('n'::('h'::[])))))))));
    m_inc = (('c'::('m'::('a'::('t'::('h'::[]))))) :: []); m_ret =
    ('d'::('o'::('u'::('b'::('l'::('e'::[])))))) } :: ({ m_py =
    ('a'::('s'::('i'::('n'::('h'::[]))))); m_cpp =
    ('s'::('t'::('d'::(':'::(':'::('a'::('s'::('i'::('n'::('h'::[]))))))))));
    m_inc = (('c'::('m'::('a'::('t'::('h'::[]))))) :: []); m_ret =
    ('d'::('o'::('u'::('b'::('l'::('e'::[])))))) } :: ({ m_py =
    ('a'::('c'::('o'::('s'::('h'::[]))))); m_cpp =
    ('s'::('t'::('d'::(':'::(':'::('a'::('c'::('o'::('s'::('h'::[]))))))))));
    m_inc = (('c'::('m'::('a'::('t'::('h'::[]))))) :: []); m_ret =
    ('d'::('o'::('u'::('b'::('l'::('e'::[])))))) } :: ({ m_py =
    ('a'::('t'::('a'::('n'::('h'::[]))))); m_cpp =
    ('s'::('t'::('d'::(':'::(':'::('a'::('t'::('a'::('n'::('h'::[]))))))))));
    m_inc = (('c'::('m'::('a'::('t'::('h'::[]))))) :: []); m_ret =
    ('d'::('o'::('u'::('b'::('l'::('e'::[])))))) } :: ({ m_py =
    ('e'::('x'::('p'::[]))); m_cpp =
    ('s'::('t'::('d'::(':'::(':'::('e'::('x'::('p'::[])))))))); m_inc =
    (('c'::('m'::('a'::('t'::('h'::[]))))) :: []); m_ret =
    ('d'::('o'::('u'::('b'::('l'::('e'::[])))))) } :: ({ m_py =
    ('l'::('d'::('e'::('x'::('p'::[]))))); m_cpp =
    ('s'::('t'::('d'::(':'::(':'::('l'::('d'::('e'::('x'::('p'::[]))))))))));
    m_inc = (('c'::('m'::('a'::('t'::('h'::[]))))) :: []); m_ret =
    ('d'::('o'::('u'::('b'::('l'::('e'::[])))))) } :: ({ m_py =
    ('l'::('o'::('g'::[]))); m_cpp =
    ('s'::('t'::('d'::(':'::(':'::('l'::('o'::('g'::[])))))))); m_inc =
    (('c'::('m'::('a'::('t'::('h'::[]))))) :: []); m_ret =
    ('d'::('o'::('u'::('b'::('l'::('e'::[])))))) } :: ({ m_py =
    ('l'::('n'::[])); m_cpp =
    ('s'::('t'::('d'::(':'::(':'::('l'::('o'::('g'::[])))))))); m_inc =
    (('c'::('m'::('a'::('t'::('h'::[]))))) :: []); m_ret =
    ('d'::('o'::('u'::('b'::('l'::('e'::[])))))) } :: ({ m_py =
    ('l'::('o'::('g'::('1'::('0'::[]))))); m_cpp =
    ('s'::('t'::('d'::(':'::(':'::('l'::('o'::('g'::('1'::('0'::[]))))))))));
    m_inc = (('c'::('m'::('a'::('t'::('h'::[]))))) :: []); m_ret =
    ('d'::('o'::('u'::('b'::('l'::('e'::[])))))) } :: ({ m_py =
    ('e'::('x'::('p'::('2'::[])))); m_cpp =
    ('s'::('t'::('d'::(':'::(':'::('e'::('x'::('p'::('2'::[])))))))));
    m_inc = (('c'::('m'::('a'::('t'::('h'::[]))))) :: []); m_ret =
    ('d'::('o'::('u'::('b'::('l'::('e'::[])))))) } :: ({ m_py =
    ('e'::('x'::('p'::('m'::('1'::[]))))); m_cpp =
    ('s'::('t'::('d'::(':'::(':'::('e'::('x'::('p'::('m'::('1'::[]))))))))));
    m_inc = (('c'::('m'::('a'::('t'::('h'::[]))))) :: []); m_ret =
    ('d'::('o'::('u'::('b'::('l'::('e'::[])))))) } :: ({ m_py =
    ('i'::('l'::('o'::('g'::('b'::[]))))); m_cpp =
    ('s'::('t'::('d'::(':'::(':'::('i'::('l'::('o'::('g'::('b'::[]))))))))));
    m_inc = (('c'::('m'::('a'::('t'::('h'::[]))))) :: []); m_ret =
    ('d'::('o'::('u'::('b'::('l'::('e'::[])))))) } :: ({ m_py =
    ('l'::('o'::('g'::('1'::('p'::[]))))); m_cpp =
    ('s'::('t'::('d'::(':'::(':'::('l'::('o'::('g'::('1'::('p'::[]))))))))));
    m_inc = (('c'::('m'::('a'::('t'::('h'::[]))))) :: []); m_ret =
    ('d'::('o'::('u'::('b'::('l'::('e'::[])))))) } :: ({ m_py =
    ('l'::('o'::('g'::('2'::[])))); m_cpp =
    ('s'::('t'::('d'::(':'::(':'::('l'::('o'::('g'::('2'::[])))))))));
    m_inc = (('c'::('m'::('a'::('t'::('h'::[]))))) :: []); m_ret =
    ('d'::('o'::('u'::('b'::('l'::('e'::[])))))) } :: ({ m_py =
    ('s'::('c'::('a'::('l'::('b'::('n'::[])))))); m_cpp =
    ('s'::('t'::('d'::(':'::(':'::('s'::('c'::('a'::('l'::('b'::('n'::[])))))))))));
    m_inc = (('c'::('m'::('a'::('t'::('h'::[]))))) :: []); m_ret =
    ('d'::('o'::('u'::('b'::('l'::('e'::[])))))) } :: ({ m_py =
    ('s'::('c'::('a'::('l'::('b'::('l'::('n'::[]))))))); m_cpp =
    ('s'::('t'::('d'::(':'::(':'::('s'::('c'::('a'::('l'::('b'::('l'::('n'::[]))))))))))));
    m_inc = (('c'::('m'::('a'::('t'::('h'::[]))))) :: []); m_ret =
    ('d'::('o'::('u'::('b'::('l'::('e'::[])))))) } :: ({ m_py =
    ('p'::('o'::('w'::[]))); m_cpp =
    ('s'::('t'::('d'::(':'::(':'::('p'::('o'::('w'::[])))))))); m_inc =
    (('c'::('m'::('a'::('t'::('h'::[]))))) :: []); m_ret =
    ('d'::('o'::('u'::('b'::('l'::('e'::[])))))) } :: ({ m_py =
    ('s'::('q'::('r'::('t'::[])))); m_cpp =
    ('s'::('t'::('d'::(':'::(':'::('s'::('q'::('r'::('t'::[])))))))));
    m_inc = (('c'::('m'::('a'::('t'::('h'::[]))))) :: []); m_ret =
    ('d'::('o'::('u'::('b'::('l'::('e'::[])))))) } :: ({ m_py =
    ('c'::('b'::('r'::('t'::[])))); m_cpp =
    ('s'::('t'::('d'::(':'::(':'::('c'::('b'::('r'::('t'::[])))))))));
    m_inc = (('c'::('m'::('a'::('t'::('h'::[]))))) :: []); m_ret =
    ('d'::('o'::('u'::('b'::('l'::('e'::[])))))) } :: ({ m_py =
    ('h'::('y'::('p'::('o'::('t'::[]))))); m_cpp =
    ('s'::('t'::('d'::(':'::(':'::('h'::('y'::('p'::('o'::('t'::[]))))))))));
    m_inc = (('c'::('m'::('a'::('t'::('h'::[]))))) :: []); m_ret =
    ('d'::('o'::('u'::('b'::('l'::('e'::[])))))) } :: ({ m_py =
    ('e'::('r'::('f'::[]))); m_cpp =
    ('s'::('t'::('d'::(':'::(':'::('e'::('r'::('f'::[])))))))); m_inc =
    (('c'::('m'::('a'::('t'::('h'::[]))))) :: []); m_ret =
    ('d'::('o'::('u'::('b'::('l'::('e'::[])))))) } :: ({ m_py =
    ('e'::('r'::('f'::('c'::[])))); m_cpp =
    ('s'::('t'::('d'::(':'::(':'::('e'::('r'::('f'::('c'::[])))))))));
    m_inc = (('c'::('m'::('a'::('t'::('h'::[]))))) :: []); m_ret =
    ('d'::('o'::('u'::('b'::('l'::('e'::[])))))) } :: ({ m_py =
    ('t'::('g'::('a'::('m'::('m'::('a'::[])))))); m_cpp =
    ('s'::('t'::('d'::(':'::(':'::('t'::('g'::('a'::('m'::('m'::('a'::[])))))))))));
    m_inc = (('c'::('m'::('a'::('t'::('h'::[]))))) :: []); m_ret =
    ('d'::('o'::('u'::('b'::('l'::('e'::[])))))) } :: ({ m_py =
    ('l'::('g'::('a'::('m'::('m'::('a'::[])))))); m_cpp =
    ('s'::('t'::('d'::(':'::(':'::('l'::('g'::('a'::('m'::('m'::('a'::[])))))))))));
    m_inc = (('c'::('m'::('a'::('t'::('h'::[]))))) :: []); m_ret =
    ('d'::('o'::('u'::('b'::('l'::('e'::[])))))) } :: ({ m_py =
    ('c'::('e'::('i'::('l'::[])))); m_cpp =
    ('s'::('t'::('d'::(':'::(':'::('c'::('e'::('i'::('l'::[])))))))));
    m_inc = (('c'::('m'::('a'::('t'::('h'::[]))))) :: []); m_ret =
    ('d'::('o'::('u'::('b'::('l'::('e'::[])))))) } :: ({ m_py =
    ('f'::('l'::('o'::('o'::('r'::[]))))); m_cpp =
    ('s'::('t'::('d'::(':'::(':'::('f'::('l'::('o'::('o'::('r'::[]))))))))));
    m_inc = (('c'::('m'::('a'::('t'::('h'::[]))))) :: []); m_ret =
    ('d'::('o'::('u'::('b'::('l'::('e'::[])))))) } :: ({ m_py =
    ('f'::('m'::('o'::('d'::[])))); m_cpp =
    ('s'::('t'::('d'::(':'::(':'::('f'::('m'::('o'::('d'::[])))))))));
    m_inc = (('c'::('m'::('a'::('t'::('h'::[]))))) :: []); m_ret =
    ('d'::('o'::('u'::('b'::('l'::('e'::[])))))) } :: ({ m_py =
    ('t'::('r'::('u'::('n'::('c'::[]))))); m_cpp =
    ('s'::('t'::('d'::(':'::(':'::('t'::('r'::('u'::('n'::('c'::[]))))))))));
    m_inc = (('c'::('m'::('a'::('t'::('h'::[]))))) :: []); m_ret =
    ('d'::('o'::('u'::('b'::('l'::('e'::[])))))) } :: ({ m_py =
    ('r'::('o'::('u'::('n'::('d'::[]))))); m_cpp =
    ('s'::('t'::('d'::(':'::(':'::('r'::('o'::('u'::('n'::('d'::[]))))))))));
    m_inc = (('c'::('m'::('a'::('t'::('h'::[]))))) :: []); m_ret =
    ('d'::('o'::('u'::('b'::('l'::('e'::[])))))) } :: ({ m_py =
    ('r'::('i'::('n'::('t'::[])))); m_cpp =
    ('s'::('t'::('d'::(':'::(':'::('r'::('i'::('n'::('t'::[])))))))));
    m_inc = (('c'::('m'::('a'::('t'::('h'::[]))))) :: []); m_ret =
    ('d'::('o'::('u'::('b'::('l'::('e'::[])))))) } :: ({ m_py =
    ('n'::('e'::('a'::('r'::('b'::('y'::('i'::('n'::('t'::[])))))))));
    m_cpp =
    ('s'::('t'::('d'::(':'::(':'::('n'::('e'::('a'::('r'::('b'::('y'::('i'::('n'::('t'::[]))))))))))))));
    m_inc = (('c'::('m'::('a'::('t'::('h'::[]))))) :: []); m_ret =
    ('d'::('o'::('u'::('b'::('l'::('e'::[])))))) } :: ({ m_py =
    ('r'::('e'::('m'::('a'::('i'::('n'::('d'::('e'::('r'::[])))))))));
    m_cpp =
    ('s'::('t'::('d'::(':'::(':'::('r'::('e'::('m'::('a'::('i'::('n'::('d'::('e'::('r'::[]))))))))))))));
    m_inc = (('c'::('m'::('a'::('t'::('h'::[]))))) :: []); m_ret =
    ('d'::('o'::('u'::('b'::('l'::('e'::[])))))) } :: ({ m_py =
    ('r'::('e'::('m'::('q'::('u'::('o'::[])))))); m_cpp =
    ('s'::('t'::('d'::(':'::(':'::('r'::('e'::('m'::('q'::('u'::('o'::[])))))))))));
    m_inc = (('c'::('m'::('a'::('t'::('h'::[]))))) :: []); m_ret =
    ('d'::('o'::('u'::('b'::('l'::('e'::[])))))) } :: ({ m_py =
    ('c'::('o'::('p'::('y'::('s'::('i'::('g'::('n'::[])))))))); m_cpp =
    ('s'::('t'::('d'::(':'::(':'::('c'::('o'::('p'::('y'::('s'::('i'::('g'::('n'::[])))))))))))));
    m_inc = (('c'::('m'::('a'::('t'::('h'::[]))))) :: []); m_ret =
    ('d'::('o'::('u'::('b'::('l'::('e'::[])))))) } :: ({ m_py =
    ('n'::('a'::('n'::[]))); m_cpp =
    ('s'::('t'::('d'::(':'::(':'::('n'::('a'::('n'::[])))))))); m_inc =
    (('c'::('m'::('a'::('t'::('h'::[]))))) :: []); m_ret =
    ('d'::('o'::('u'::('b'::('l'::('e'::[])))))) } :: ({ m_py =
    ('n'::('e'::('x'::('t'::('a'::('f'::('t'::('e'::('r'::[])))))))));
    m_cpp =
    ('s'::('t'::('d'::(':'::(':'::('n'::('e'::('x'::('t'::('a'::('f'::('t'::('e'::('r'::[]))))))))))))));
    m_inc = (('c'::('m'::('a'::('t'::('h'::[]))))) :: []); m_ret =
    ('d'::('o'::('u'::('b'::('l'::('e'::[])))))) } :: ({ m_py =
    ('n'::('e'::('x'::('t'::('t'::('o'::('w'::('a'::('r'::('d'::[]))))))))));
    m_cpp =
    ('s'::('t'::('d'::(':'::(':'::('n'::('e'::('x'::('t'::('t'::('o'::('w'::('a'::('r'::('d'::[])))))))))))))));
    m_inc = (('c'::('m'::('a'::('t'::('h'::[]))))) :: []); m_ret =
    ('d'::('o'::('u'::('b'::('l'::('e'::[])))))) } :: ({ m_py =
    ('f'::('d'::('i'::('m'::[])))); m_cpp =
    ('s'::('t'::('d'::(':'::(':'::('f'::('d'::('i'::('m'::[])))))))));
    m_inc = (('c'::('m'::('a'::('t'::('h'::[]))))) :: []); m_ret =
    ('d'::('o'::('u'::('b'::('l'::('e'::[])))))) } :: ({ m_py =
    ('f'::('m'::('a'::('x'::[])))); m_cpp =
    ('s'::('t'::('d'::(':'::(':'::('f'::('m'::('a'::('x'::[])))))))));
    m_inc = (('c'::('m'::('a'::('t'::('h'::[]))))) :: []); m_ret =
    ('d'::('o'::('u'::('b'::('l'::('e'::[])))))) } :: ({ m_py =
    ('f'::('m'::('i'::('n'::[])))); m_cpp =
    ('s'::('t'::('d'::(':'::(':'::('f'::('m'::('i'::('n'::[])))))))));
    m_inc = (('c'::('m'::('a'::('t'::('h'::[]))))) :: []); m_ret =
    ('d'::('o'::('u'::('b'::('l'::('e'::[])))))) } :: ({ m_py =
    ('f'::('a'::('b'::('s'::[])))); m_cpp =
    ('s'::('t'::('d'::(':'::(':'::('f'::('a'::('b'::('s'::[])))))))));
    m_inc = (('c'::('m'::('a'::('t'::('h'::[]))))) :: []); m_ret =
    ('d'::('o'::('u'::('b'::('l'::('e'::[])))))) } :: ({ m_py =
    ('a'::('b'::('s'::[]))); m_cpp =
    ('s'::('t'::('d'::(':'::(':'::('f'::('a'::('b'::('s'::[])))))))));
    m_inc = (('c'::('m'::('a'::('t'::('h'::[]))))) :: []); m_ret =
    ('d'::('o'::('u'::('b'::('l'::('e'::[])))))) } :: ({ m_py =
    ('f'::('m'::('a'::[]))); m_cpp =
    ('s'::('t'::('d'::(':'::(':'::('f'::('m'::('a'::[])))))))); m_inc =
    (('c'::('m'::('a'::('t'::('h'::[]))))) :: []); m_ret =
    ('d'::('o'::('u'::('b'::('l'::('e'::[])))))) } :: ({ m_py =
    ('b'::('u'::('i'::('l'::('t'::('i'::('n'::('s'::('.'::('a'::('b'::('s'::[]))))))))))));
    m_cpp = ('s'::('t'::('d'::(':'::(':'::('a'::('b'::('s'::[]))))))));
    m_inc = (('c'::('m'::('a'::('t'::('h'::[]))))) :: []); m_ret =
    ('d'::('o'::('u'::('b'::('l'::('e'::[])))))) } :: ({ m_py =
    ('b'::('u'::('i'::('l'::('t'::('i'::('n'::('s'::('.'::('p'::('o'::('w'::[]))))))))))));
    m_cpp = ('s'::('t'::('d'::(':'::(':'::('p'::('o'::('w'::[]))))))));
    m_inc = (('c'::('m'::('a'::('t'::('h'::[]))))) :: []); m_ret =
    ('d'::('o'::('u'::('b'::('l'::('e'::[])))))) } :: ({ m_py =
    ('b'::('u'::('i'::('l'::('t'::('i'::('n'::('s'::('.'::('r'::('o'::('u'::('n'::('d'::[]))))))))))))));
    m_cpp =
    ('s'::('t'::('d'::(':'::(':'::('r'::('o'::('u'::('n'::('d'::[]))))))))));
    m_inc = (('c'::('m'::('a'::('t'::('h'::[]))))) :: []); m_ret =
    ('d'::('o'::('u'::('b'::('l'::('e'::[])))))) } :: []))))))))))))))))))))))))))))))))))))))))))))))))))))))

(** val module_names : char list list **)

let module_names =
  ('a'::('s'::('t'::[]))) :: (('n'::('a'::('m'::('e'::('d'::('t'::('u'::('p'::('l'::('e'::[])))))))))) :: (('F'::('u'::('n'::('c'::('t'::('i'::('o'::('n'::('A'::('S'::('T'::[]))))))))))) :: (('f'::('i'::('n'::('d'::('_'::('k'::('n'::('o'::('w'::('n'::('_'::('f'::('u'::('n'::('c'::('t'::('i'::('o'::('n'::('s'::[])))))))))))))))))))) :: (('a'::('d'::('d'::('_'::('f'::('u'::('n'::('c'::('t'::('i'::('o'::('n'::('_'::('m'::('a'::('p'::('p'::('i'::('n'::('g'::[])))))))))))))))))))) :: (('f'::('u'::('n'::('c'::('t'::('i'::('o'::('n'::('s'::('_'::('t'::('o'::('_'::('r'::('e'::('p'::('l'::('a'::('c'::('e'::[])))))))))))))))))))) :: (('c'::('p'::('p'::('_'::('f'::('u'::('n'::('c'::('t'::('i'::('o'::('n'::[])))))))))))) :: []))))))

(** val builtin_names : (char list * char list) list **)

let builtin_names =
  (('A'::('r'::('i'::('t'::('h'::('m'::('e'::('t'::('i'::('c'::('E'::('r'::('r'::('o'::('r'::[]))))))))))))))),
    ('b'::('u'::('i'::('l'::('t'::('i'::('n'::('s'::[]))))))))) :: ((('A'::('s'::('s'::('e'::('r'::('t'::('i'::('o'::('n'::('E'::('r'::('r'::('o'::('r'::[])))))))))))))),
    ('b'::('u'::('i'::('l'::('t'::('i'::('n'::('s'::[]))))))))) :: ((('A'::('t'::('t'::('r'::('i'::('b'::('u'::('t'::('e'::('E'::('r'::('r'::('o'::('r'::[])))))))))))))),
    ('b'::('u'::('i'::('l'::('t'::('i'::('n'::('s'::[]))))))))) :: ((('B'::('a'::('s'::('e'::('E'::('x'::('c'::('e'::('p'::('t'::('i'::('o'::('n'::[]))))))))))))),
    ('b'::('u'::('i'::('l'::('t'::('i'::('n'::('s'::[]))))))))) :: ((('B'::('a'::('s'::('e'::('E'::('x'::('c'::('e'::('p'::('t'::('i'::('o'::('n'::('G'::('r'::('o'::('u'::('p'::[])))))))))))))))))),
    ('b'::('u'::('i'::('l'::('t'::('i'::('n'::('s'::[]))))))))) :: ((('B'::('l'::('o'::('c'::('k'::('i'::('n'::('g'::('I'::('O'::('E'::('r'::('r'::('o'::('r'::[]))))))))))))))),
    ('b'::('u'::('i'::('l'::('t'::('i'::('n'::('s'::[]))))))))) :: ((('B'::('r'::('o'::('k'::('e'::('n'::('P'::('i'::('p'::('e'::('E'::('r'::('r'::('o'::('r'::[]))))))))))))))),
    ('b'::('u'::('i'::('l'::('t'::('i'::('n'::('s'::[]))))))))) :: ((('B'::('u'::('f'::('f'::('e'::('r'::('E'::('r'::('r'::('o'::('r'::[]))))))))))),
    ('b'::('u'::('i'::('l'::('t'::('i'::('n'::('s'::[]))))))))) :: ((('B'::('y'::('t'::('e'::('s'::('W'::('a'::('r'::('n'::('i'::('n'::('g'::[])))))))))))),
    ('b'::('u'::('i'::('l'::('t'::('i'::('n'::('s'::[]))))))))) :: ((('C'::('h'::('i'::('l'::('d'::('P'::('r'::('o'::('c'::('e'::('s'::('s'::('E'::('r'::('r'::('o'::('r'::[]))))))))))))))))),
    ('b'::('u'::('i'::('l'::('t'::('i'::('n'::('s'::[]))))))))) :: ((('C'::('o'::('n'::('n'::('e'::('c'::('t'::('i'::('o'::('n'::('A'::('b'::('o'::('r'::('t'::('e'::('d'::('E'::('r'::('r'::('o'::('r'::[])))))))))))))))))))))),
    ('b'::('u'::('i'::('l'::('t'::('i'::('n'::('s'::[]))))))))) :: ((('C'::('o'::('n'::('n'::('e'::('c'::('t'::('i'::('o'::('n'::('E'::('r'::('r'::('o'::('r'::[]))))))))))))))),
    ('b'::('u'::('i'::('l'::('t'::('i'::('n'::('s'::[]))))))))) :: ((('C'::('o'::('n'::('n'::('e'::('c'::('t'::('i'::('o'::('n'::('R'::('e'::('f'::('u'::('s'::('e'::('d'::('E'::('r'::('r'::('o'::('r'::[])))))))))))))))))))))),
    ('b'::('u'::('i'::('l'::('t'::('i'::('n'::('s'::[]))))))))) :: ((('C'::('o'::('n'::('n'::('e'::('c'::('t'::('i'::('o'::('n'::('R'::('e'::('s'::('e'::('t'::('E'::('r'::('r'::('o'::('r'::[])))))))))))))))))))),
    ('b'::('u'::('i'::('l'::('t'::('i'::('n'::('s'::[]))))))))) :: ((('D'::('e'::('p'::('r'::('e'::('c'::('a'::('t'::('i'::('o'::('n'::('W'::('a'::('r'::('n'::('i'::('n'::('g'::[])))))))))))))))))),
    ('b'::('u'::('i'::('l'::('t'::('i'::('n'::('s'::[]))))))))) :: ((('E'::('O'::('F'::('E'::('r'::('r'::('o'::('r'::[])))))))),
    ('b'::('u'::('i'::('l'::('t'::('i'::('n'::('s'::[]))))))))) :: ((('E'::('l'::('l'::('i'::('p'::('s'::('i'::('s'::[])))))))),
    ('-'::[])) :: ((('E'::('n'::('c'::('o'::('d'::('i'::('n'::('g'::('W'::('a'::('r'::('n'::('i'::('n'::('g'::[]))))))))))))))),
    ('b'::('u'::('i'::('l'::('t'::('i'::('n'::('s'::[]))))))))) :: ((('E'::('n'::('v'::('i'::('r'::('o'::('n'::('m'::('e'::('n'::('t'::('E'::('r'::('r'::('o'::('r'::[])))))))))))))))),
    ('b'::('u'::('i'::('l'::('t'::('i'::('n'::('s'::[]))))))))) :: ((('E'::('x'::('c'::('e'::('p'::('t'::('i'::('o'::('n'::[]))))))))),
    ('b'::('u'::('i'::('l'::('t'::('i'::('n'::('s'::[]))))))))) :: ((('E'::('x'::('c'::('e'::('p'::('t'::('i'::('o'::('n'::('G'::('r'::('o'::('u'::('p'::[])))))))))))))),
    ('b'::('u'::('i'::('l'::('t'::('i'::('n'::('s'::[]))))))))) :: ((('F'::('a'::('l'::('s'::('e'::[]))))),
    ('-'::[])) :: ((('F'::('i'::('l'::('e'::('E'::('x'::('i'::('s'::('t'::('s'::('E'::('r'::('r'::('o'::('r'::[]))))))))))))))),
    ('b'::('u'::('i'::('l'::('t'::('i'::('n'::('s'::[]))))))))) :: ((('F'::('i'::('l'::('e'::('N'::('o'::('t'::('F'::('o'::('u'::('n'::('d'::('E'::('r'::('r'::('o'::('r'::[]))))))))))))))))),
    ('b'::('u'::('i'::('l'::('t'::('i'::('n'::('s'::[]))))))))) :: ((('F'::('l'::('o'::('a'::('t'::('i'::('n'::('g'::('P'::('o'::('i'::('n'::('t'::('E'::('r'::('r'::('o'::('r'::[])))))))))))))))))),
    ('b'::('u'::('i'::('l'::('t'::('i'::('n'::('s'::[]))))))))) :: ((('F'::('u'::('t'::('u'::('r'::('e'::('W'::('a'::('r'::('n'::('i'::('n'::('g'::[]))))))))))))),
    ('b'::('u'::('i'::('l'::('t'::('i'::('n'::('s'::[]))))))))) :: ((('G'::('e'::('n'::('e'::('r'::('a'::('t'::('o'::('r'::('E'::('x'::('i'::('t'::[]))))))))))))),
    ('b'::('u'::('i'::('l'::('t'::('i'::('n'::('s'::[]))))))))) :: ((('I'::('O'::('E'::('r'::('r'::('o'::('r'::[]))))))),
    ('b'::('u'::('i'::('l'::('t'::('i'::('n'::('s'::[]))))))))) :: ((('I'::('m'::('p'::('o'::('r'::('t'::('E'::('r'::('r'::('o'::('r'::[]))))))))))),
    ('b'::('u'::('i'::('l'::('t'::('i'::('n'::('s'::[]))))))))) :: ((('I'::('m'::('p'::('o'::('r'::('t'::('W'::('a'::('r'::('n'::('i'::('n'::('g'::[]))))))))))))),
    ('b'::('u'::('i'::('l'::('t'::('i'::('n'::('s'::[]))))))))) :: ((('I'::('n'::('d'::('e'::('n'::('t'::('a'::('t'::('i'::('o'::('n'::('E'::('r'::('r'::('o'::('r'::[])))))))))))))))),
    ('b'::('u'::('i'::('l'::('t'::('i'::('n'::('s'::[]))))))))) :: ((('I'::('n'::('d'::('e'::('x'::('E'::('r'::('r'::('o'::('r'::[])))))))))),
    ('b'::('u'::('i'::('l'::('t'::('i'::('n'::('s'::[]))))))))) :: ((('I'::('n'::('t'::('e'::('r'::('r'::('u'::('p'::('t'::('e'::('d'::('E'::('r'::('r'::('o'::('r'::[])))))))))))))))),
    ('b'::('u'::('i'::('l'::('t'::('i'::('n'::('s'::[]))))))))) :: ((('I'::('s'::('A'::('D'::('i'::('r'::('e'::('c'::('t'::('o'::('r'::('y'::('E'::('r'::('r'::('o'::('r'::[]))))))))))))))))),
    ('b'::('u'::('i'::('l'::('t'::('i'::('n'::('s'::[]))))))))) :: ((('K'::('e'::('y'::('E'::('r'::('r'::('o'::('r'::[])))))))),
    ('b'::('u'::('i'::('l'::('t'::('i'::('n'::('s'::[]))))))))) :: ((('K'::('e'::('y'::('b'::('o'::('a'::('r'::('d'::('I'::('n'::('t'::('e'::('r'::('r'::('u'::('p'::('t'::[]))))))))))))))))),
    ('b'::('u'::('i'::('l'::('t'::('i'::('n'::('s'::[]))))))))) :: ((('L'::('o'::('o'::('k'::('u'::('p'::('E'::('r'::('r'::('o'::('r'::[]))))))))))),
    ('b'::('u'::('i'::('l'::('t'::('i'::('n'::('s'::[]))))))))) :: ((('M'::('e'::('m'::('o'::('r'::('y'::('E'::('r'::('r'::('o'::('r'::[]))))))))))),
    ('b'::('u'::('i'::('l'::('t'::('i'::('n'::('s'::[]))))))))) :: ((('M'::('o'::('d'::('u'::('l'::('e'::('N'::('o'::('t'::('F'::('o'::('u'::('n'::('d'::('E'::('r'::('r'::('o'::('r'::[]))))))))))))))))))),
    ('b'::('u'::('i'::('l'::('t'::('i'::('n'::('s'::[]))))))))) :: ((('N'::('a'::('m'::('e'::('E'::('r'::('r'::('o'::('r'::[]))))))))),
    ('b'::('u'::('i'::('l'::('t'::('i'::('n'::('s'::[]))))))))) :: ((('N'::('o'::('n'::('e'::[])))),
    ('-'::[])) :: ((('N'::('o'::('t'::('A'::('D'::('i'::('r'::('e'::('c'::('t'::('o'::('r'::('y'::('E'::('r'::('r'::('o'::('r'::[])))))))))))))))))),
    ('b'::('u'::('i'::('l'::('t'::('i'::('n'::('s'::[]))))))))) :: ((('N'::('o'::('t'::('I'::('m'::('p'::('l'::('e'::('m'::('e'::('n'::('t'::('e'::('d'::[])))))))))))))),
    ('-'::[])) :: ((('N'::('o'::('t'::('I'::('m'::('p'::('l'::('e'::('m'::('e'::('n'::('t'::('e'::('d'::('E'::('r'::('r'::('o'::('r'::[]))))))))))))))))))),
    ('b'::('u'::('i'::('l'::('t'::('i'::('n'::('s'::[]))))))))) :: ((('O'::('S'::('E'::('r'::('r'::('o'::('r'::[]))))))),
    ('b'::('u'::('i'::('l'::('t'::('i'::('n'::('s'::[]))))))))) :: ((('O'::('v'::('e'::('r'::('f'::('l'::('o'::('w'::('E'::('r'::('r'::('o'::('r'::[]))))))))))))),
    ('b'::('u'::('i'::('l'::('t'::('i'::('n'::('s'::[]))))))))) :: ((('P'::('e'::('n'::('d'::('i'::('n'::('g'::('D'::('e'::('p'::('r'::('e'::('c'::('a'::('t'::('i'::('o'::('n'::('W'::('a'::('r'::('n'::('i'::('n'::('g'::[]))))))))))))))))))))))))),
    ('b'::('u'::('i'::('l'::('t'::('i'::('n'::('s'::[]))))))))) :: ((('P'::('e'::('r'::('m'::('i'::('s'::('s'::('i'::('o'::('n'::('E'::('r'::('r'::('o'::('r'::[]))))))))))))))),
    ('b'::('u'::('i'::('l'::('t'::('i'::('n'::('s'::[]))))))))) :: ((('P'::('r'::('o'::('c'::('e'::('s'::('s'::('L'::('o'::('o'::('k'::('u'::('p'::('E'::('r'::('r'::('o'::('r'::[])))))))))))))))))),
    ('b'::('u'::('i'::('l'::('t'::('i'::('n'::('s'::[]))))))))) :: ((('R'::('e'::('c'::('u'::('r'::('s'::('i'::('o'::('n'::('E'::('r'::('r'::('o'::('r'::[])))))))))))))),
    ('b'::('u'::('i'::('l'::('t'::('i'::('n'::('s'::[]))))))))) :: ((('R'::('e'::('f'::('e'::('r'::('e'::('n'::('c'::('e'::('E'::('r'::('r'::('o'::('r'::[])))))))))))))),
    ('b'::('u'::('i'::('l'::('t'::('i'::('n'::('s'::[]))))))))) :: ((('R'::('e'::('s'::('o'::('u'::('r'::('c'::('e'::('W'::('a'::('r'::('n'::('i'::('n'::('g'::[]))))))))))))))),
    ('b'::('u'::('i'::('l'::('t'::('i'::('n'::('s'::[]))))))))) :: ((('R'::('u'::('n'::('t'::('i'::('m'::('e'::('E'::('r'::('r'::('o'::('r'::[])))))))))))),
    ('b'::('u'::('i'::('l'::('t'::('i'::('n'::('s'::[]))))))))) :: ((('R'::('u'::('n'::('t'::('i'::('m'::('e'::('W'::('a'::('r'::('n'::('i'::('n'::('g'::[])))))))))))))),
    ('b'::('u'::('i'::('l'::('t'::('i'::('n'::('s'::[]))))))))) :: ((('S'::('t'::('o'::('p'::('A'::('s'::('y'::('n'::('c'::('I'::('t'::('e'::('r'::('a'::('t'::('i'::('o'::('n'::[])))))))))))))))))),
    ('b'::('u'::('i'::('l'::('t'::('i'::('n'::('s'::[]))))))))) :: ((('S'::('t'::('o'::('p'::('I'::('t'::('e'::('r'::('a'::('t'::('i'::('o'::('n'::[]))))))))))))),
    ('b'::('u'::('i'::('l'::('t'::('i'::('n'::('s'::[]))))))))) :: ((('S'::('y'::('n'::('t'::('a'::('x'::('E'::('r'::('r'::('o'::('r'::[]))))))))))),
    ('b'::('u'::('i'::('l'::('t'::('i'::('n'::('s'::[]))))))))) :: ((('S'::('y'::('n'::('t'::('a'::('x'::('W'::('a'::('r'::('n'::('i'::('n'::('g'::[]))))))))))))),
    ('b'::('u'::('i'::('l'::('t'::('i'::('n'::('s'::[]))))))))) :: ((('S'::('y'::('s'::('t'::('e'::('m'::('E'::('r'::('r'::('o'::('r'::[]))))))))))),
    ('b'::('u'::('i'::('l'::('t'::('i'::('n'::('s'::[]))))))))) :: ((('S'::('y'::('s'::('t'::('e'::('m'::('E'::('x'::('i'::('t'::[])))))))))),
    ('b'::('u'::('i'::('l'::('t'::('i'::('n'::('s'::[]))))))))) :: ((('T'::('a'::('b'::('E'::('r'::('r'::('o'::('r'::[])))))))),
    ('b'::('u'::('i'::('l'::('t'::('i'::('n'::('s'::[]))))))))) :: ((('T'::('i'::('m'::('e'::('o'::('u'::('t'::('E'::('r'::('r'::('o'::('r'::[])))))))))))),
    ('b'::('u'::('i'::('l'::('t'::('i'::('n'::('s'::[]))))))))) :: ((('T'::('r'::('u'::('e'::[])))),
    ('-'::[])) :: ((('T'::('y'::('p'::('e'::('E'::('r'::('r'::('o'::('r'::[]))))))))),
    ('b'::('u'::('i'::('l'::('t'::('i'::('n'::('s'::[]))))))))) :: ((('U'::('n'::('b'::('o'::('u'::('n'::('d'::('L'::('o'::('c'::('a'::('l'::('E'::('r'::('r'::('o'::('r'::[]))))))))))))))))),
    ('b'::('u'::('i'::('l'::('t'::('i'::('n'::('s'::[]))))))))) :: ((('U'::('n'::('i'::('c'::('o'::('d'::('e'::('D'::('e'::('c'::('o'::('d'::('e'::('E'::('r'::('r'::('o'::('r'::[])))))))))))))))))),
    ('b'::('u'::('i'::('l'::('t'::('i'::('n'::('s'::[]))))))))) :: ((('U'::('n'::('i'::('c'::('o'::('d'::('e'::('E'::('n'::('c'::('o'::('d'::('e'::('E'::('r'::('r'::('o'::('r'::[])))))))))))))))))),
    ('b'::('u'::('i'::('l'::('t'::('i'::('n'::('s'::[]))))))))) :: ((('U'::('n'::('i'::('c'::('o'::('d'::('e'::('E'::('r'::('r'::('o'::('r'::[])))))))))))),
    ('b'::('u'::('i'::('l'::('t'::('i'::('n'::('s'::[]))))))))) :: ((('U'::('n'::('i'::('c'::('o'::('d'::('e'::('T'::('r'::('a'::('n'::('s'::('l'::('a'::('t'::('e'::('E'::('r'::('r'::('o'::('r'::[]))))))))))))))))))))),
    ('b'::('u'::('i'::('l'::('t'::('i'::('n'::('s'::[]))))))))) :: ((('U'::('n'::('i'::('c'::('o'::('d'::('e'::('W'::('a'::('r'::('n'::('i'::('n'::('g'::[])))))))))))))),
    ('b'::('u'::('i'::('l'::('t'::('i'::('n'::('s'::[]))))))))) :: ((('U'::('s'::('e'::('r'::('W'::('a'::('r'::('n'::('i'::('n'::('g'::[]))))))))))),
    ('b'::('u'::('i'::('l'::('t'::('i'::('n'::('s'::[]))))))))) :: ((('V'::('a'::('l'::('u'::('e'::('E'::('r'::('r'::('o'::('r'::[])))))))))),
    ('b'::('u'::('i'::('l'::('t'::('i'::('n'::('s'::[]))))))))) :: ((('W'::('a'::('r'::('n'::('i'::('n'::('g'::[]))))))),
    ('b'::('u'::('i'::('l'::('t'::('i'::('n'::('s'::[]))))))))) :: ((('Z'::('e'::('r'::('o'::('D'::('i'::('v'::('i'::('s'::('i'::('o'::('n'::('E'::('r'::('r'::('o'::('r'::[]))))))))))))))))),
    ('b'::('u'::('i'::('l'::('t'::('i'::('n'::('s'::[]))))))))) :: ((('_'::('_'::('b'::('u'::('i'::('l'::('d'::('_'::('c'::('l'::('a'::('s'::('s'::('_'::('_'::[]))))))))))))))),
    ('b'::('u'::('i'::('l'::('t'::('i'::('n'::('s'::[]))))))))) :: ((('_'::('_'::('d'::('e'::('b'::('u'::('g'::('_'::('_'::[]))))))))),
    ('-'::[])) :: ((('_'::('_'::('d'::('o'::('c'::('_'::('_'::[]))))))),
    ('-'::[])) :: ((('_'::('_'::('i'::('m'::('p'::('o'::('r'::('t'::('_'::('_'::[])))))))))),
    ('b'::('u'::('i'::('l'::('t'::('i'::('n'::('s'::[]))))))))) :: ((('_'::('_'::('l'::('o'::('a'::('d'::('e'::('r'::('_'::('_'::[])))))))))),
    ('_'::('f'::('r'::('o'::('z'::('e'::('n'::('_'::('i'::('m'::('p'::('o'::('r'::('t'::('l'::('i'::('b'::[])))))))))))))))))) :: ((('_'::('_'::('n'::('a'::('m'::('e'::('_'::('_'::[])))))))),
    ('-'::[])) :: ((('_'::('_'::('p'::('a'::('c'::('k'::('a'::('g'::('e'::('_'::('_'::[]))))))))))),
    ('-'::[])) :: ((('_'::('_'::('s'::('p'::('e'::('c'::('_'::('_'::[])))))))),
    ('_'::('f'::('r'::('o'::('z'::('e'::('n'::('_'::('i'::('m'::('p'::('o'::('r'::('t'::('l'::('i'::('b'::[])))))))))))))))))) :: ((('a'::('b'::('s'::[]))),
    ('b'::('u'::('i'::('l'::('t'::('i'::('n'::('s'::[]))))))))) :: ((('a'::('i'::('t'::('e'::('r'::[]))))),
    ('b'::('u'::('i'::('l'::('t'::('i'::('n'::('s'::[]))))))))) :: ((('a'::('l'::('l'::[]))),
    ('b'::('u'::('i'::('l'::('t'::('i'::('n'::('s'::[]))))))))) :: ((('a'::('n'::('e'::('x'::('t'::[]))))),
    ('b'::('u'::('i'::('l'::('t'::('i'::('n'::('s'::[]))))))))) :: ((('a'::('n'::('y'::[]))),
    ('b'::('u'::('i'::('l'::('t'::('i'::('n'::('s'::[]))))))))) :: ((('a'::('s'::('c'::('i'::('i'::[]))))),
    ('b'::('u'::('i'::('l'::('t'::('i'::('n'::('s'::[]))))))))) :: ((('b'::('i'::('n'::[]))),
    ('b'::('u'::('i'::('l'::('t'::('i'::('n'::('s'::[]))))))))) :: ((('b'::('o'::('o'::('l'::[])))),
    ('b'::('u'::('i'::('l'::('t'::('i'::('n'::('s'::[]))))))))) :: ((('b'::('r'::('e'::('a'::('k'::('p'::('o'::('i'::('n'::('t'::[])))))))))),
    ('b'::('u'::('i'::('l'::('t'::('i'::('n'::('s'::[]))))))))) :: ((('b'::('y'::('t'::('e'::('a'::('r'::('r'::('a'::('y'::[]))))))))),
    ('b'::('u'::('i'::('l'::('t'::('i'::('n'::('s'::[]))))))))) :: ((('b'::('y'::('t'::('e'::('s'::[]))))),
    ('b'::('u'::('i'::('l'::('t'::('i'::('n'::('s'::[]))))))))) :: ((('c'::('a'::('l'::('l'::('a'::('b'::('l'::('e'::[])))))))),
    ('b'::('u'::('i'::('l'::('t'::('i'::('n'::('s'::[]))))))))) :: ((('c'::('h'::('r'::[]))),
    ('b'::('u'::('i'::('l'::('t'::('i'::('n'::('s'::[]))))))))) :: ((('c'::('l'::('a'::('s'::('s'::('m'::('e'::('t'::('h'::('o'::('d'::[]))))))))))),
    ('b'::('u'::('i'::('l'::('t'::('i'::('n'::('s'::[]))))))))) :: ((('c'::('o'::('m'::('p'::('i'::('l'::('e'::[]))))))),
    ('b'::('u'::('i'::('l'::('t'::('i'::('n'::('s'::[]))))))))) :: ((('c'::('o'::('m'::('p'::('l'::('e'::('x'::[]))))))),
    ('b'::('u'::('i'::('l'::('t'::('i'::('n'::('s'::[]))))))))) :: ((('c'::('o'::('p'::('y'::('r'::('i'::('g'::('h'::('t'::[]))))))))),
    ('_'::('s'::('i'::('t'::('e'::('b'::('u'::('i'::('l'::('t'::('i'::('n'::('s'::[])))))))))))))) :: ((('c'::('r'::('e'::('d'::('i'::('t'::('s'::[]))))))),
    ('_'::('s'::('i'::('t'::('e'::('b'::('u'::('i'::('l'::('t'::('i'::('n'::('s'::[])))))))))))))) :: ((('d'::('e'::('l'::('a'::('t'::('t'::('r'::[]))))))),
    ('b'::('u'::('i'::('l'::('t'::('i'::('n'::('s'::[]))))))))) :: ((('d'::('i'::('c'::('t'::[])))),
    ('b'::('u'::('i'::('l'::('t'::('i'::('n'::('s'::[]))))))))) :: ((('d'::('i'::('r'::[]))),
    ('b'::('u'::('i'::('l'::('t'::('i'::('n'::('s'::[]))))))))) :: ((('d'::('i'::('v'::('m'::('o'::('d'::[])))))),
    ('b'::('u'::('i'::('l'::('t'::('i'::('n'::('s'::[]))))))))) :: ((('e'::('n'::('u'::('m'::('e'::('r'::('a'::('t'::('e'::[]))))))))),
    ('b'::('u'::('i'::('l'::('t'::('i'::('n'::('s'::[]))))))))) :: ((('e'::('v'::('a'::('l'::[])))),
    ('b'::('u'::('i'::('l'::('t'::('i'::('n'::('s'::[]))))))))) :: ((('e'::('x'::('e'::('c'::[])))),
    ('b'::('u'::('i'::('l'::('t'::('i'::('n'::('s'::[]))))))))) :: ((('e'::('x'::('i'::('t'::[])))),
    ('_'::('s'::('i'::('t'::('e'::('b'::('u'::('i'::('l'::('t'::('i'::('n'::('s'::[])))))))))))))) :: ((('f'::('i'::('l'::('t'::('e'::('r'::[])))))),
    ('b'::('u'::('i'::('l'::('t'::('i'::('n'::('s'::[]))))))))) :: ((('f'::('l'::('o'::('a'::('t'::[]))))),
    ('b'::('u'::('i'::('l'::('t'::('i'::('n'::('s'::[]))))))))) :: ((('f'::('o'::('r'::('m'::('a'::('t'::[])))))),
    ('b'::('u'::('i'::('l'::('t'::('i'::('n'::('s'::[]))))))))) :: ((('f'::('r'::('o'::('z'::('e'::('n'::('s'::('e'::('t'::[]))))))))),
    ('b'::('u'::('i'::('l'::('t'::('i'::('n'::('s'::[]))))))))) :: ((('g'::('e'::('t'::('a'::('t'::('t'::('r'::[]))))))),
    ('b'::('u'::('i'::('l'::('t'::('i'::('n'::('s'::[]))))))))) :: ((('g'::('l'::('o'::('b'::('a'::('l'::('s'::[]))))))),
    ('b'::('u'::('i'::('l'::('t'::('i'::('n'::('s'::[]))))))))) :: ((('h'::('a'::('s'::('a'::('t'::('t'::('r'::[]))))))),
    ('b'::('u'::('i'::('l'::('t'::('i'::('n'::('s'::[]))))))))) :: ((('h'::('a'::('s'::('h'::[])))),
    ('b'::('u'::('i'::('l'::('t'::('i'::('n'::('s'::[]))))))))) :: ((('h'::('e'::('l'::('p'::[])))),
    ('_'::('s'::('i'::('t'::('e'::('b'::('u'::('i'::('l'::('t'::('i'::('n'::('s'::[])))))))))))))) :: ((('h'::('e'::('x'::[]))),
    ('b'::('u'::('i'::('l'::('t'::('i'::('n'::('s'::[]))))))))) :: ((('i'::('d'::[])),
    ('b'::('u'::('i'::('l'::('t'::('i'::('n'::('s'::[]))))))))) :: ((('i'::('n'::('p'::('u'::('t'::[]))))),
    ('b'::('u'::('i'::('l'::('t'::('i'::('n'::('s'::[]))))))))) :: ((('i'::('n'::('t'::[]))),
    ('b'::('u'::('i'::('l'::('t'::('i'::('n'::('s'::[]))))))))) :: ((('i'::('s'::('i'::('n'::('s'::('t'::('a'::('n'::('c'::('e'::[])))))))))),
    ('b'::('u'::('i'::('l'::('t'::('i'::('n'::('s'::[]))))))))) :: ((('i'::('s'::('s'::('u'::('b'::('c'::('l'::('a'::('s'::('s'::[])))))))))),
    ('b'::('u'::('i'::('l'::('t'::('i'::('n'::('s'::[]))))))))) :: ((('i'::('t'::('e'::('r'::[])))),
    ('b'::('u'::('i'::('l'::('t'::('i'::('n'::('s'::[]))))))))) :: ((('l'::('e'::('n'::[]))),
    ('b'::('u'::('i'::('l'::('t'::('i'::('n'::('s'::[]))))))))) :: ((('l'::('i'::('c'::('e'::('n'::('s'::('e'::[]))))))),
    ('_'::('s'::('i'::('t'::('e'::('b'::('u'::('i'::('l'::('t'::('i'::('n'::('s'::[])))))))))))))) :: ((('l'::('i'::('s'::('t'::[])))),
    ('b'::('u'::('i'::('l'::('t'::('i'::('n'::('s'::[]))))))))) :: ((('l'::('o'::('c'::('a'::('l'::('s'::[])))))),
    ('b'::('u'::('i'::('l'::('t'::('i'::('n'::('s'::[]))))))))) :: ((('m'::('a'::('p'::[]))),
    ('b'::('u'::('i'::('l'::('t'::('i'::('n'::('s'::[]))))))))) :: ((('m'::('a'::('x'::[]))),
    ('b'::('u'::('i'::('l'::('t'::('i'::('n'::('s'::[]))))))))) :: ((('m'::('e'::('m'::('o'::('r'::('y'::('v'::('i'::('e'::('w'::[])))))))))),
    ('b'::('u'::('i'::('l'::('t'::('i'::('n'::('s'::[]))))))))) :: ((('m'::('i'::('n'::[]))),
    ('b'::('u'::('i'::('l'::('t'::('i'::('n'::('s'::[]))))))))) :: ((('n'::('e'::('x'::('t'::[])))),
    ('b'::('u'::('i'::('l'::('t'::('i'::('n'::('s'::[]))))))))) :: ((('o'::('b'::('j'::('e'::('c'::('t'::[])))))),
    ('b'::('u'::('i'::('l'::('t'::('i'::('n'::('s'::[]))))))))) :: ((('o'::('c'::('t'::[]))),
    ('b'::('u'::('i'::('l'::('t'::('i'::('n'::('s'::[]))))))))) :: ((('o'::('p'::('e'::('n'::[])))),
    ('_'::('i'::('o'::[])))) :: ((('o'::('r'::('d'::[]))),
    ('b'::('u'::('i'::('l'::('t'::('i'::('n'::('s'::[]))))))))) :: ((('p'::('o'::('w'::[]))),
    ('b'::('u'::('i'::('l'::('t'::('i'::('n'::('s'::[]))))))))) :: ((('p'::('r'::('i'::('n'::('t'::[]))))),
    ('b'::('u'::('i'::('l'::('t'::('i'::('n'::('s'::[]))))))))) :: ((('p'::('r'::('o'::('p'::('e'::('r'::('t'::('y'::[])))))))),
    ('b'::('u'::('i'::('l'::('t'::('i'::('n'::('s'::[]))))))))) :: ((('q'::('u'::('i'::('t'::[])))),
    ('_'::('s'::('i'::('t'::('e'::('b'::('u'::('i'::('l'::('t'::('i'::('n'::('s'::[])))))))))))))) :: ((('r'::('a'::('n'::('g'::('e'::[]))))),
    ('b'::('u'::('i'::('l'::('t'::('i'::('n'::('s'::[]))))))))) :: ((('r'::('e'::('p'::('r'::[])))),
    ('b'::('u'::('i'::('l'::('t'::('i'::('n'::('s'::[]))))))))) :: ((('r'::('e'::('v'::('e'::('r'::('s'::('e'::('d'::[])))))))),
    ('b'::('u'::('i'::('l'::('t'::('i'::('n'::('s'::[]))))))))) :: ((('r'::('o'::('u'::('n'::('d'::[]))))),
    ('b'::('u'::('i'::('l'::('t'::('i'::('n'::('s'::[]))))))))) :: ((('s'::('e'::('t'::[]))),
    ('b'::('u'::('i'::('l'::('t'::('i'::('n'::('s'::[]))))))))) :: ((('s'::('e'::('t'::('a'::('t'::('t'::('r'::[]))))))),
    ('b'::('u'::('i'::('l'::('t'::('i'::('n'::('s'::[]))))))))) :: ((('s'::('l'::('i'::('c'::('e'::[]))))),
    ('b'::('u'::('i'::('l'::('t'::('i'::('n'::('s'::[]))))))))) :: ((('s'::('o'::('r'::('t'::('e'::('d'::[])))))),
    ('b'::('u'::('i'::('l'::('t'::('i'::('n'::('s'::[]))))))))) :: ((('s'::('t'::('a'::('t'::('i'::('c'::('m'::('e'::('t'::('h'::('o'::('d'::[])))))))))))),
    ('b'::('u'::('i'::('l'::('t'::('i'::('n'::('s'::[]))))))))) :: ((('s'::('t'::('r'::[]))),
    ('b'::('u'::('i'::('l'::('t'::('i'::('n'::('s'::[]))))))))) :: ((('s'::('u'::('m'::[]))),
    ('b'::('u'::('i'::('l'::('t'::('i'::('n'::('s'::[]))))))))) :: ((('s'::('u'::('p'::('e'::('r'::[]))))),
    ('b'::('u'::('i'::('l'::('t'::('i'::('n'::('s'::[]))))))))) :: ((('t'::('u'::('p'::('l'::('e'::[]))))),
    ('b'::('u'::('i'::('l'::('t'::('i'::('n'::('s'::[]))))))))) :: ((('t'::('y'::('p'::('e'::[])))),
    ('b'::('u'::('i'::('l'::('t'::('i'::('n'::('s'::[]))))))))) :: ((('v'::('a'::('r'::('s'::[])))),
    ('b'::('u'::('i'::('l'::('t'::('i'::('n'::('s'::[]))))))))) :: ((('z'::('i'::('p'::[]))),
    ('b'::('u'::('i'::('l'::('t'::('i'::('n'::('s'::[]))))))))) :: []))))))))))))))))))))))))))))))))))))))))))))))))))))))))))))))))))))))))))))))))))))))))))))))))))))))))))))))))))))))))))))))))))))))))))))))))))))))))))))

(** val documented : char list list **)

let documented =
  ('s'::('i'::('n'::[]))) :: (('c'::('o'::('s'::[]))) :: (('t'::('a'::('n'::[]))) :: (('a'::('c'::('o'::('s'::[])))) :: (('a'::('s'::('i'::('n'::[])))) :: (('a'::('t'::('a'::('n'::[])))) :: (('a'::('t'::('a'::('n'::('2'::[]))))) :: (('s'::('i'::('n'::('h'::[])))) :: (('c'::('o'::('s'::('h'::[])))) :: (('t'::('a'::('n'::('h'::[])))) :: (('a'::('s'::('i'::('n'::('h'::[]))))) :: (('a'::('c'::('o'::('s'::('h'::[]))))) :: (('a'::('t'::('a'::('n'::('h'::[]))))) :: (('e'::('x'::('p'::[]))) :: (('l'::('d'::('e'::('x'::('p'::[]))))) :: (('l'::('o'::('g'::[]))) :: (('l'::('n'::[])) :: (('l'::('o'::('g'::('1'::('0'::[]))))) :: (('e'::('x'::('p'::('2'::[])))) :: (('e'::('x'::('p'::('m'::('1'::[]))))) :: (('i'::('l'::('o'::('g'::('b'::[]))))) :: (('l'::('o'::('g'::('1'::('p'::[]))))) :: (('l'::('o'::('g'::('2'::[])))) :: (('s'::('c'::('a'::('l'::('b'::('n'::[])))))) :: (('s'::('c'::('a'::('l'::('b'::('l'::('n'::[]))))))) :: (('p'::('o'::('w'::[]))) :: (('s'::('q'::('r'::('t'::[])))) :: (('c'::('b'::('r'::('t'::[])))) :: (('h'::('y'::('p'::('o'::('t'::[]))))) :: (('e'::('r'::('f'::[]))) :: (('e'::('r'::('f'::('c'::[])))) :: (('t'::('g'::('a'::('m'::('m'::('a'::[])))))) :: (('l'::('g'::('a'::('m'::('m'::('a'::[])))))) :: (('c'::('e'::('i'::('l'::[])))) :: (('f'::('l'::('o'::('o'::('r'::[]))))) :: (('f'::('m'::('o'::('d'::[])))) :: (('t'::('r'::('u'::('n'::('c'::[]))))) :: (('r'::('o'::('u'::('n'::('d'::[]))))) :: (('r'::('i'::('n'::('t'::[])))) :: (('n'::('e'::('a'::('r'::('b'::('y'::('i'::('n'::('t'::[]))))))))) :: (('r'::('e'::('m'::('a'::('i'::('n'::('d'::('e'::('r'::[]))))))))) :: (('r'::('e'::('m'::('q'::('u'::('o'::[])))))) :: (('c'::('o'::('p'::('y'::('s'::('i'::('g'::('n'::[])))))))) :: (('n'::('a'::('n'::[]))) :: (('n'::('e'::('x'::('t'::('a'::('f'::('t'::('e'::('r'::[]))))))))) :: (('n'::('e'::('x'::('t'::('t'::('o'::('w'::('a'::('r'::('d'::[])))))))))) :: (('f'::('d'::('i'::('m'::[])))) :: (('f'::('m'::('a'::('x'::[])))) :: (('f'::('m'::('i'::('n'::[])))) :: (('f'::('a'::('b'::('s'::[])))) :: (('a'::('b'::('s'::[]))) :: (('f'::('m'::('a'::[]))) :: [])))))))))))))))))))))))))))))))))))))))))))))))))))

(** val math_env : menv **)

let math_env =
  { e_rows = math_rows; e_module = module_names; e_builtins = builtin_names }

type cexp =
| CVar of char list
| CInt of z
| CDbl of char list * z * positive
| CBool of bool
| CStr of char list
| CBin of char list * cexp * cexp
| CUn of char list * cexp
| CNot of cexp
| CDeref of cexp
| CCall of char list * cexps
| CMeth of cexp * bool * char list * cexps
| CField of cexp * bool * char list
| CCast of char list * cexp
| CSubI of cexp * cexp
| COpaque of char list * char list list
and cexps =
| CNil
| CCons of cexp * cexps

type decl = { d_type : char list; d_name : char list; d_init : cexp option }

type stmt =
| SSet of char list * char list option * cexp
| SPush of char list * char list option * cexp
| SClear of char list
| SFill of char list
| SThrow of char list
| SFetch of char list * char list * char list * char list * char list list
| SIota of char list * char list
| SUser of char list list * char list list * char list option
| SLine of char list * char list list
| SFor of char list * cexp * block
| SIf of cexp * block * block option
| SBlk of block
and block =
| Blk of decl list * stmts
and stmts =
| SNil
| SCons of stmt * stmts

type member = { m_type : char list; m_name : char list }

type branch = { br_name : char list; br_var : char list }

type program = { p_members : member list; p_tree : char list;
                 p_branches : branch list; p_book_extra : char list list;
                 p_body : block }

(** val pr_exp : cexp -> char list **)

let rec pr_exp = function
| CVar x -> x
| CInt z0 -> dec_Z z0
| CDbl (t, _, _) -> t
| CBool b ->
  if b
  then 't'::('r'::('u'::('e'::[])))
  else 'f'::('a'::('l'::('s'::('e'::[]))))
| CStr s -> append ('"'::[]) (append s ('"'::[]))
| CBin (op, a, b) ->
  append ('('::[])
    (append (pr_exp a) (append op (append (pr_exp b) (')'::[]))))
| CUn (op, a) ->
  append ('('::[])
    (append op (append ('('::[]) (append (pr_exp a) (')'::(')'::[])))))
| CNot a -> append ('!'::[]) (pr_exp a)
| CDeref a -> append ('*'::[]) (pr_exp a)
| CCall (f, args) ->
  append f (append ('('::[]) (append (pr_args args) (')'::[])))
| CMeth (o, arrow, m, args) ->
  append (pr_obj o)
    (append (if arrow then '-'::('>'::[]) else '.'::[])
      (append m (append ('('::[]) (append (pr_args args) (')'::[])))))
| CField (o, arrow, m) ->
  append (pr_obj o) (append (if arrow then '-'::('>'::[]) else '.'::[]) m)
| CCast (ty, a) ->
  append
    ('s'::('t'::('a'::('t'::('i'::('c'::('_'::('c'::('a'::('s'::('t'::('<'::[]))))))))))))
    (append ty (append ('>'::('('::[])) (append (pr_exp a) (')'::[]))))
| CSubI (a, b) ->
  append (pr_exp a) (append (' '::('-'::(' '::[]))) (pr_exp b))
| COpaque (t, _) -> t

(** val pr_obj : cexp -> char list **)

and pr_obj = function
| CVar x -> x
| CInt z0 -> dec_Z z0
| CDbl (t, _, _) -> t
| CBool b ->
  if b
  then 't'::('r'::('u'::('e'::[])))
  else 'f'::('a'::('l'::('s'::('e'::[]))))
| CStr s -> append ('"'::[]) (append s ('"'::[]))
| CBin (op, a, b) ->
  append ('('::[])
    (append (pr_exp a) (append op (append (pr_exp b) (')'::[]))))
| CUn (op, a) ->
  append ('('::[])
    (append op (append ('('::[]) (append (pr_exp a) (')'::(')'::[])))))
| CNot a -> append ('!'::[]) (pr_exp a)
| CDeref a -> append ('('::('*'::[])) (append (pr_obj a) (')'::[]))
| CCall (f, args) ->
  append f (append ('('::[]) (append (pr_args args) (')'::[])))
| CMeth (o, arrow, m, args) ->
  append (pr_obj o)
    (append (if arrow then '-'::('>'::[]) else '.'::[])
      (append m (append ('('::[]) (append (pr_args args) (')'::[])))))
| CField (o, arrow, m) ->
  append (pr_obj o) (append (if arrow then '-'::('>'::[]) else '.'::[]) m)
| CCast (ty, a) ->
  append
    ('s'::('t'::('a'::('t'::('i'::('c'::('_'::('c'::('a'::('s'::('t'::('<'::[]))))))))))))
    (append ty (append ('>'::('('::[])) (append (pr_exp a) (')'::[]))))
| CSubI (a, b) ->
  append (pr_exp a) (append (' '::('-'::(' '::[]))) (pr_exp b))
| COpaque (t, _) -> t

(** val pr_args : cexps -> char list **)

and pr_args = function
| CNil -> []
| CCons (e, r) ->
  (match r with
   | CNil -> pr_exp e
   | CCons (_, _) -> append (pr_exp e) (append (','::[]) (pr_args r)))

(** val indent : nat -> char list **)

let rec indent = function
| O -> []
| S k -> append (' '::(' '::[])) (indent k)

(** val pr_decl : decl -> char list **)

let pr_decl d =
  append d.d_type
    (append (' '::[])
      (append d.d_name
        (append
          (match d.d_init with
           | Some e -> append (' '::('('::[])) (append (pr_exp e) (')'::[]))
           | None -> []) (';'::[]))))

(** val pr_cast : char list option -> cexp -> char list **)

let pr_cast cast e =
  match cast with
  | Some t ->
    append
      ('s'::('t'::('a'::('t'::('i'::('c'::('_'::('c'::('a'::('s'::('t'::('<'::[]))))))))))))
      (append t (append ('>'::('('::[])) (append (pr_exp e) (')'::[]))))
  | None -> pr_exp e

(** val pr_stmt : nat -> stmt -> char list list **)

let rec pr_stmt n0 = function
| SSet (x, c, e) ->
  (append (indent n0)
    (append x
      (append (' '::('='::(' '::[]))) (append (pr_cast c e) (';'::[]))))) :: []
| SPush (x, c, e) ->
  (append (indent n0)
    (append x
      (append
        ('.'::('p'::('u'::('s'::('h'::('_'::('b'::('a'::('c'::('k'::('('::[])))))))))))
        (append (pr_cast c e) (')'::(';'::[])))))) :: []
| SClear x ->
  (append (indent n0)
    (append x
      ('.'::('c'::('l'::('e'::('a'::('r'::('('::(')'::(';'::[]))))))))))) :: []
| SFill l -> (append (indent n0) l) :: []
| SThrow l -> (append (indent n0) l) :: []
| SFetch (_, target, _, _, lines) ->
  app ((append (indent n0) ('{'::[])) :: [])
    (app (map (fun l -> append (indent (S n0)) l) lines)
      ((append (indent (S n0))
         (append target
           (' '::('='::(' '::('r'::('e'::('s'::('u'::('l'::('t'::(';'::[])))))))))))) :: (
      (append (indent n0) ('}'::[])) :: [])))
| SIota (v, b) ->
  (append (indent n0)
    (append
      ('s'::('t'::('d'::(':'::(':'::('i'::('o'::('t'::('a'::('('::[]))))))))))
      (append v
        (append
          ('.'::('b'::('e'::('g'::('i'::('n'::('('::(')'::(','::[])))))))))
          (append v
            (append ('.'::('e'::('n'::('d'::('('::(')'::(','::[])))))))
              (append b (')'::(';'::[]))))))))) :: []
| SUser (lines, _, target) ->
  app ((append (indent n0) ('{'::[])) :: [])
    (app (map (fun l -> append (indent (S n0)) l) lines)
      (app
        (match target with
         | Some t ->
           (append (indent (S n0))
             (append t
               (' '::('='::(' '::('r'::('e'::('s'::('u'::('l'::('t'::(';'::[])))))))))))) :: []
         | None -> []) ((append (indent n0) ('}'::[])) :: [])))
| SLine (l, _) -> (append (indent n0) l) :: []
| SFor (x, e, b) ->
  (append (indent n0)
    (append
      ('f'::('o'::('r'::(' '::('('::('a'::('u'::('t'::('o'::(' '::('&'::('&'::[]))))))))))))
      (append x
        (append (' '::(':'::(' '::[]))) (append (pr_exp e) (')'::[])))))) :: 
    (pr_block n0 b)
| SIf (c, b, els) ->
  app
    ((append (indent n0)
       (append ('i'::('f'::(' '::('('::[])))) (append (pr_exp c) (')'::[])))) :: 
    (pr_block n0 b))
    (match els with
     | Some b2 ->
       (append (indent n0) ('e'::('l'::('s'::('e'::[]))))) :: (pr_block n0 b2)
     | None -> [])
| SBlk b -> pr_block n0 b

(** val pr_block : nat -> block -> char list list **)

and pr_block n0 = function
| Blk (ds, body) ->
  app ((append (indent n0) ('{'::[])) :: [])
    (app (map (fun d -> append (indent (S n0)) (pr_decl d)) ds)
      (app (pr_stmts (S n0) body) ((append (indent n0) ('}'::[])) :: [])))

(** val pr_stmts : nat -> stmts -> char list list **)

and pr_stmts n0 = function
| SNil -> []
| SCons (s, r) -> app (pr_stmt n0 s) (pr_stmts n0 r)

(** val print_block : block -> char list list **)

let print_block b =
  pr_block O b

(** val d_cexp_fuel : nat -> sexp -> cexp option **)

let rec d_cexp_fuel fuel s =
  match fuel with
  | O -> None
  | S f ->
    let dargs =
      let rec dargs = function
      | [] -> Some CNil
      | x :: r ->
        (match d_cexp_fuel f x with
         | Some e ->
           (match dargs r with
            | Some r' -> Some (CCons (e, r'))
            | None -> None)
         | None -> None)
      in dargs
    in
    (match s with
     | SAtom _ -> None
     | SList l ->
       (match l with
        | [] -> None
        | s0 :: l0 ->
          (match s0 with
           | SAtom s1 ->
             (match s1 with
              | [] -> None
              | a0::s2 ->
                (* If this appears, you're using Ascii internals. Please don't *)
 (fun f c ->
  let n = Char.code c in
  let h i = (n land (1 lsl i)) <> 0 in
  f (h 0) (h 1) (h 2) (h 3) (h 4) (h 5) (h 6) (h 7))
                  (fun b0 b1 b2 b3 b4 b5 b6 b7 ->
                  if b0
                  then if b1
                       then if b2
                            then if b3
                                 then if b4
                                      then None
                                      else if b5
                                           then if b6
                                                then if b7
                                                     then None
                                                     else (match s2 with
                                                           | [] -> None
                                                           | a::s3 ->
                                                             (* If this appears, you're using Ascii internals. Please don't *)
 (fun f c ->
  let n = Char.code c in
  let h i = (n land (1 lsl i)) <> 0 in
  f (h 0) (h 1) (h 2) (h 3) (h 4) (h 5) (h 6) (h 7))
                                                               (fun b b8 b9 b10 b11 b12 b13 b14 ->
                                                               if b
                                                               then None
                                                               else if b8
                                                                    then None
                                                                    else 
                                                                    if b9
                                                                    then None
                                                                    else 
                                                                    if b10
                                                                    then None
                                                                    else 
                                                                    if b11
                                                                    then 
                                                                    if b12
                                                                    then 
                                                                    if b13
                                                                    then 
                                                                    if b14
                                                                    then None
                                                                    else 
                                                                    (match s3 with
                                                                    | [] ->
                                                                    None
                                                                    | a1::s4 ->
                                                                    (* If this appears, you're using Ascii internals. Please don't *)
 (fun f c ->
  let n = Char.code c in
  let h i = (n land (1 lsl i)) <> 0 in
  f (h 0) (h 1) (h 2) (h 3) (h 4) (h 5) (h 6) (h 7))
                                                                    (fun b15 b16 b17 b18 b19 b20 b21 b22 ->
                                                                    if b15
                                                                    then 
                                                                    if b16
                                                                    then None
                                                                    else 
                                                                    if b17
                                                                    then None
                                                                    else 
                                                                    if b18
                                                                    then None
                                                                    else 
                                                                    if b19
                                                                    then None
                                                                    else 
                                                                    if b20
                                                                    then 
                                                                    if b21
                                                                    then 
                                                                    if b22
                                                                    then None
                                                                    else 
                                                                    (match s4 with
                                                                    | [] ->
                                                                    None
                                                                    | a2::s5 ->
                                                                    (* If this appears, you're using Ascii internals. Please don't *)
 (fun f c ->
  let n = Char.code c in
  let h i = (n land (1 lsl i)) <> 0 in
  f (h 0) (h 1) (h 2) (h 3) (h 4) (h 5) (h 6) (h 7))
                                                                    (fun b23 b24 b25 b26 b27 b28 b29 b30 ->
                                                                    if b23
                                                                    then 
                                                                    if b24
                                                                    then None
                                                                    else 
                                                                    if b25
                                                                    then None
                                                                    else 
                                                                    if b26
                                                                    then None
                                                                    else 
                                                                    if b27
                                                                    then 
                                                                    if b28
                                                                    then 
                                                                    if b29
                                                                    then 
                                                                    if b30
                                                                    then None
                                                                    else 
                                                                    (match s5 with
                                                                    | [] ->
                                                                    None
                                                                    | a3::s6 ->
                                                                    (* If this appears, you're using Ascii internals. Please don't *)
 (fun f c ->
  let n = Char.code c in
  let h i = (n land (1 lsl i)) <> 0 in
  f (h 0) (h 1) (h 2) (h 3) (h 4) (h 5) (h 6) (h 7))
                                                                    (fun b31 b32 b33 b34 b35 b36 b37 b38 ->
                                                                    if b31
                                                                    then 
                                                                    if b32
                                                                    then None
                                                                    else 
                                                                    if b33
                                                                    then 
                                                                    if b34
                                                                    then None
                                                                    else 
                                                                    if b35
                                                                    then 
                                                                    if b36
                                                                    then 
                                                                    if b37
                                                                    then 
                                                                    if b38
                                                                    then None
                                                                    else 
                                                                    (match s6 with
                                                                    | [] ->
                                                                    None
                                                                    | a4::s7 ->
                                                                    (* If this appears, you're using Ascii internals. Please don't *)
 (fun f c ->
  let n = Char.code c in
  let h i = (n land (1 lsl i)) <> 0 in
  f (h 0) (h 1) (h 2) (h 3) (h 4) (h 5) (h 6) (h 7))
                                                                    (fun b39 b40 b41 b42 b43 b44 b45 b46 ->
                                                                    if b39
                                                                    then 
                                                                    if b40
                                                                    then None
                                                                    else 
                                                                    if b41
                                                                    then 
                                                                    if b42
                                                                    then None
                                                                    else 
                                                                    if b43
                                                                    then None
                                                                    else 
                                                                    if b44
                                                                    then 
                                                                    if b45
                                                                    then 
                                                                    if b46
                                                                    then None
                                                                    else 
                                                                    (match s7 with
                                                                    | [] ->
                                                                    (match l0 with
                                                                    | [] ->
                                                                    None
                                                                    | s8 :: l1 ->
                                                                    (match s8 with
                                                                    | SAtom t ->
                                                                    (match l1 with
                                                                    | [] ->
                                                                    None
                                                                    | ids :: l2 ->
                                                                    (match l2 with
                                                                    | [] ->
                                                                    option_map
                                                                    (fun x ->
                                                                    COpaque
                                                                    (t, x))
                                                                    (d_strs
                                                                    ids)
                                                                    | _ :: _ ->
                                                                    None))
                                                                    | SList _ ->
                                                                    None))
                                                                    | _::_ ->
                                                                    None)
                                                                    else None
                                                                    else None
                                                                    else None
                                                                    else None)
                                                                    a4)
                                                                    else None
                                                                    else None
                                                                    else None
                                                                    else None
                                                                    else None)
                                                                    a3)
                                                                    else None
                                                                    else None
                                                                    else None
                                                                    else None)
                                                                    a2)
                                                                    else None
                                                                    else None
                                                                    else None)
                                                                    a1)
                                                                    else None
                                                                    else None
                                                                    else None)
                                                               a)
                                                else None
                                           else None
                                 else None
                            else if b3
                                 then None
                                 else if b4
                                      then if b5
                                           then if b6
                                                then if b7
                                                     then None
                                                     else (match s2 with
                                                           | [] -> None
                                                           | a1::s3 ->
                                                             (* If this appears, you're using Ascii internals. Please don't *)
 (fun f c ->
  let n = Char.code c in
  let h i = (n land (1 lsl i)) <> 0 in
  f (h 0) (h 1) (h 2) (h 3) (h 4) (h 5) (h 6) (h 7))
                                                               (fun b8 b9 b10 b11 b12 b13 b14 b15 ->
                                                               if b8
                                                               then if b9
                                                                    then None
                                                                    else 
                                                                    if b10
                                                                    then 
                                                                    if b11
                                                                    then None
                                                                    else 
                                                                    if b12
                                                                    then 
                                                                    if b13
                                                                    then 
                                                                    if b14
                                                                    then 
                                                                    if b15
                                                                    then None
                                                                    else 
                                                                    (match s3 with
                                                                    | [] ->
                                                                    None
                                                                    | a2::s4 ->
                                                                    (* If this appears, you're using Ascii internals. Please don't *)
 (fun f c ->
  let n = Char.code c in
  let h i = (n land (1 lsl i)) <> 0 in
  f (h 0) (h 1) (h 2) (h 3) (h 4) (h 5) (h 6) (h 7))
                                                                    (fun b16 b17 b18 b19 b20 b21 b22 b23 ->
                                                                    if b16
                                                                    then None
                                                                    else 
                                                                    if b17
                                                                    then 
                                                                    if b18
                                                                    then None
                                                                    else 
                                                                    if b19
                                                                    then None
                                                                    else 
                                                                    if b20
                                                                    then None
                                                                    else 
                                                                    if b21
                                                                    then 
                                                                    if b22
                                                                    then 
                                                                    if b23
                                                                    then None
                                                                    else 
                                                                    (match s4 with
                                                                    | [] ->
                                                                    None
                                                                    | a3::s5 ->
                                                                    (* If this appears, you're using Ascii internals. Please don't *)
 (fun f c ->
  let n = Char.code c in
  let h i = (n land (1 lsl i)) <> 0 in
  f (h 0) (h 1) (h 2) (h 3) (h 4) (h 5) (h 6) (h 7))
                                                                    (fun b24 b25 b26 b27 b28 b29 b30 b31 ->
                                                                    if b24
                                                                    then 
                                                                    if b25
                                                                    then None
                                                                    else 
                                                                    if b26
                                                                    then None
                                                                    else 
                                                                    if b27
                                                                    then 
                                                                    if b28
                                                                    then None
                                                                    else 
                                                                    if b29
                                                                    then 
                                                                    if b30
                                                                    then 
                                                                    if b31
                                                                    then None
                                                                    else 
                                                                    (match s5 with
                                                                    | [] ->
                                                                    (match l0 with
                                                                    | [] ->
                                                                    None
                                                                    | a :: l1 ->
                                                                    (match l1 with
                                                                    | [] ->
                                                                    None
                                                                    | b :: l2 ->
                                                                    (match l2 with
                                                                    | [] ->
                                                                    (match 
                                                                    d_cexp_fuel
                                                                    f a with
                                                                    | Some a' ->
                                                                    (match 
                                                                    d_cexp_fuel
                                                                    f b with
                                                                    | Some b' ->
                                                                    Some
                                                                    (CSubI
                                                                    (a', b'))
                                                                    | None ->
                                                                    None)
                                                                    | None ->
                                                                    None)
                                                                    | _ :: _ ->
                                                                    None)))
                                                                    | _::_ ->
                                                                    None)
                                                                    else None
                                                                    else None
                                                                    else None
                                                                    else None)
                                                                    a3)
                                                                    else None
                                                                    else None
                                                                    else None)
                                                                    a2)
                                                                    else None
                                                                    else None
                                                                    else None
                                                                    else None
                                                               else if b9
                                                                    then None
                                                                    else 
                                                                    if b10
                                                                    then 
                                                                    if b11
                                                                    then None
                                                                    else 
                                                                    if b12
                                                                    then 
                                                                    if b13
                                                                    then 
                                                                    if b14
                                                                    then 
                                                                    if b15
                                                                    then None
                                                                    else 
                                                                    (match s3 with
                                                                    | [] ->
                                                                    None
                                                                    | a::s4 ->
                                                                    (* If this appears, you're using Ascii internals. Please don't *)
 (fun f c ->
  let n = Char.code c in
  let h i = (n land (1 lsl i)) <> 0 in
  f (h 0) (h 1) (h 2) (h 3) (h 4) (h 5) (h 6) (h 7))
                                                                    (fun b b16 b17 b18 b19 b20 b21 b22 ->
                                                                    if b
                                                                    then None
                                                                    else 
                                                                    if b16
                                                                    then 
                                                                    if b17
                                                                    then None
                                                                    else 
                                                                    if b18
                                                                    then None
                                                                    else 
                                                                    if b19
                                                                    then 
                                                                    if b20
                                                                    then 
                                                                    if b21
                                                                    then 
                                                                    if b22
                                                                    then None
                                                                    else 
                                                                    (match s4 with
                                                                    | [] ->
                                                                    (match l0 with
                                                                    | [] ->
                                                                    None
                                                                    | s5 :: l1 ->
                                                                    (match s5 with
                                                                    | SAtom t ->
                                                                    (match l1 with
                                                                    | [] ->
                                                                    Some
                                                                    (CStr t)
                                                                    | _ :: _ ->
                                                                    None)
                                                                    | SList _ ->
                                                                    None))
                                                                    | _::_ ->
                                                                    None)
                                                                    else None
                                                                    else None
                                                                    else None
                                                                    else None)
                                                                    a)
                                                                    else None
                                                                    else None
                                                                    else None
                                                                    else None)
                                                               a1)
                                                else None
                                           else None
                                      else if b5
                                           then if b6
                                                then if b7
                                                     then None
                                                     else (match s2 with
                                                           | [] -> None
                                                           | a1::s3 ->
                                                             (* If this appears, you're using Ascii internals. Please don't *)
 (fun f c ->
  let n = Char.code c in
  let h i = (n land (1 lsl i)) <> 0 in
  f (h 0) (h 1) (h 2) (h 3) (h 4) (h 5) (h 6) (h 7))
                                                               (fun b b8 b9 b10 b11 b12 b13 b14 ->
                                                               if b
                                                               then if b8
                                                                    then None
                                                                    else 
                                                                    if b9
                                                                    then None
                                                                    else 
                                                                    if b10
                                                                    then None
                                                                    else 
                                                                    if b11
                                                                    then None
                                                                    else 
                                                                    if b12
                                                                    then 
                                                                    if b13
                                                                    then 
                                                                    if b14
                                                                    then None
                                                                    else 
                                                                    (match s3 with
                                                                    | [] ->
                                                                    None
                                                                    | a2::s4 ->
                                                                    (* If this appears, you're using Ascii internals. Please don't *)
 (fun f c ->
  let n = Char.code c in
  let h i = (n land (1 lsl i)) <> 0 in
  f (h 0) (h 1) (h 2) (h 3) (h 4) (h 5) (h 6) (h 7))
                                                                    (fun b15 b16 b17 b18 b19 b20 b21 b22 ->
                                                                    if b15
                                                                    then 
                                                                    if b16
                                                                    then 
                                                                    if b17
                                                                    then None
                                                                    else 
                                                                    if b18
                                                                    then None
                                                                    else 
                                                                    if b19
                                                                    then 
                                                                    if b20
                                                                    then 
                                                                    if b21
                                                                    then 
                                                                    if b22
                                                                    then None
                                                                    else 
                                                                    (match s4 with
                                                                    | [] ->
                                                                    None
                                                                    | a3::s5 ->
                                                                    (* If this appears, you're using Ascii internals. Please don't *)
 (fun f c ->
  let n = Char.code c in
  let h i = (n land (1 lsl i)) <> 0 in
  f (h 0) (h 1) (h 2) (h 3) (h 4) (h 5) (h 6) (h 7))
                                                                    (fun b23 b24 b25 b26 b27 b28 b29 b30 ->
                                                                    if b23
                                                                    then None
                                                                    else 
                                                                    if b24
                                                                    then None
                                                                    else 
                                                                    if b25
                                                                    then 
                                                                    if b26
                                                                    then None
                                                                    else 
                                                                    if b27
                                                                    then 
                                                                    if b28
                                                                    then 
                                                                    if b29
                                                                    then 
                                                                    if b30
                                                                    then None
                                                                    else 
                                                                    (match s5 with
                                                                    | [] ->
                                                                    (match l0 with
                                                                    | [] ->
                                                                    None
                                                                    | s6 :: l1 ->
                                                                    (match s6 with
                                                                    | SAtom t ->
                                                                    (match l1 with
                                                                    | [] ->
                                                                    None
                                                                    | a :: l2 ->
                                                                    (match l2 with
                                                                    | [] ->
                                                                    option_map
                                                                    (fun x ->
                                                                    CCast (t,
                                                                    x))
                                                                    (d_cexp_fuel
                                                                    f a)
                                                                    | _ :: _ ->
                                                                    None))
                                                                    | SList _ ->
                                                                    None))
                                                                    | _::_ ->
                                                                    None)
                                                                    else None
                                                                    else None
                                                                    else None
                                                                    else None)
                                                                    a3)
                                                                    else None
                                                                    else None
                                                                    else None
                                                                    else None
                                                                    else 
                                                                    if b16
                                                                    then None
                                                                    else 
                                                                    if b17
                                                                    then 
                                                                    if b18
                                                                    then 
                                                                    if b19
                                                                    then None
                                                                    else 
                                                                    if b20
                                                                    then 
                                                                    if b21
                                                                    then 
                                                                    if b22
                                                                    then None
                                                                    else 
                                                                    (match s4 with
                                                                    | [] ->
                                                                    None
                                                                    | a::s5 ->
                                                                    (* If this appears, you're using Ascii internals. Please don't *)
 (fun f c ->
  let n = Char.code c in
  let h i = (n land (1 lsl i)) <> 0 in
  f (h 0) (h 1) (h 2) (h 3) (h 4) (h 5) (h 6) (h 7))
                                                                    (fun b23 b24 b25 b26 b27 b28 b29 b30 ->
                                                                    if b23
                                                                    then None
                                                                    else 
                                                                    if b24
                                                                    then None
                                                                    else 
                                                                    if b25
                                                                    then 
                                                                    if b26
                                                                    then 
                                                                    if b27
                                                                    then None
                                                                    else 
                                                                    if b28
                                                                    then 
                                                                    if b29
                                                                    then 
                                                                    if b30
                                                                    then None
                                                                    else 
                                                                    (match s5 with
                                                                    | [] ->
                                                                    (match l0 with
                                                                    | [] ->
                                                                    None
                                                                    | s6 :: l1 ->
                                                                    (match s6 with
                                                                    | SAtom g ->
                                                                    (match l1 with
                                                                    | [] ->
                                                                    None
                                                                    | s7 :: l2 ->
                                                                    (match s7 with
                                                                    | SAtom _ ->
                                                                    None
                                                                    | SList args ->
                                                                    (match l2 with
                                                                    | [] ->
                                                                    option_map
                                                                    (fun x ->
                                                                    CCall (g,
                                                                    x))
                                                                    (dargs
                                                                    args)
                                                                    | _ :: _ ->
                                                                    None)))
                                                                    | SList _ ->
                                                                    None))
                                                                    | _::_ ->
                                                                    None)
                                                                    else None
                                                                    else None
                                                                    else None
                                                                    else None)
                                                                    a)
                                                                    else None
                                                                    else None
                                                                    else None
                                                                    else None)
                                                                    a2)
                                                                    else None
                                                                    else None
                                                               else None)
                                                               a1)
                                                else None
                                           else None
                       else if b2
                            then if b3
                                 then if b4
                                      then None
                                      else if b5
                                           then if b6
                                                then if b7
                                                     then None
                                                     else (match s2 with
                                                           | [] -> None
                                                           | a::s3 ->
                                                             (* If this appears, you're using Ascii internals. Please don't *)
 (fun f c ->
  let n = Char.code c in
  let h i = (n land (1 lsl i)) <> 0 in
  f (h 0) (h 1) (h 2) (h 3) (h 4) (h 5) (h 6) (h 7))
                                                               (fun b b8 b9 b10 b11 b12 b13 b14 ->
                                                               if b
                                                               then if b8
                                                                    then None
                                                                    else 
                                                                    if b9
                                                                    then 
                                                                    if b10
                                                                    then None
                                                                    else 
                                                                    if b11
                                                                    then None
                                                                    else 
                                                                    if b12
                                                                    then 
                                                                    if b13
                                                                    then 
                                                                    if b14
                                                                    then None
                                                                    else 
                                                                    (match s3 with
                                                                    | [] ->
                                                                    None
                                                                    | a1::s4 ->
                                                                    (* If this appears, you're using Ascii internals. Please don't *)
 (fun f c ->
  let n = Char.code c in
  let h i = (n land (1 lsl i)) <> 0 in
  f (h 0) (h 1) (h 2) (h 3) (h 4) (h 5) (h 6) (h 7))
                                                                    (fun b15 b16 b17 b18 b19 b20 b21 b22 ->
                                                                    if b15
                                                                    then None
                                                                    else 
                                                                    if b16
                                                                    then None
                                                                    else 
                                                                    if b17
                                                                    then 
                                                                    if b18
                                                                    then None
                                                                    else 
                                                                    if b19
                                                                    then 
                                                                    if b20
                                                                    then 
                                                                    if b21
                                                                    then 
                                                                    if b22
                                                                    then None
                                                                    else 
                                                                    (match s4 with
                                                                    | [] ->
                                                                    None
                                                                    | a2::s5 ->
                                                                    (* If this appears, you're using Ascii internals. Please don't *)
 (fun f c ->
  let n = Char.code c in
  let h i = (n land (1 lsl i)) <> 0 in
  f (h 0) (h 1) (h 2) (h 3) (h 4) (h 5) (h 6) (h 7))
                                                                    (fun b23 b24 b25 b26 b27 b28 b29 b30 ->
                                                                    if b23
                                                                    then None
                                                                    else 
                                                                    if b24
                                                                    then None
                                                                    else 
                                                                    if b25
                                                                    then None
                                                                    else 
                                                                    if b26
                                                                    then 
                                                                    if b27
                                                                    then None
                                                                    else 
                                                                    if b28
                                                                    then 
                                                                    if b29
                                                                    then 
                                                                    if b30
                                                                    then None
                                                                    else 
                                                                    (match s5 with
                                                                    | [] ->
                                                                    (match l0 with
                                                                    | [] ->
                                                                    None
                                                                    | o :: l1 ->
                                                                    (match l1 with
                                                                    | [] ->
                                                                    None
                                                                    | ar :: l2 ->
                                                                    (match l2 with
                                                                    | [] ->
                                                                    None
                                                                    | s6 :: l3 ->
                                                                    (match s6 with
                                                                    | SAtom m ->
                                                                    (match l3 with
                                                                    | [] ->
                                                                    None
                                                                    | s7 :: l4 ->
                                                                    (match s7 with
                                                                    | SAtom _ ->
                                                                    None
                                                                    | SList args ->
                                                                    (match l4 with
                                                                    | [] ->
                                                                    (match 
                                                                    d_cexp_fuel
                                                                    f o with
                                                                    | Some o' ->
                                                                    (match 
                                                                    d_bool ar with
                                                                    | Some ar' ->
                                                                    (match 
                                                                    dargs args with
                                                                    | Some args' ->
                                                                    Some
                                                                    (CMeth
                                                                    (o', ar',
                                                                    m, args'))
                                                                    | None ->
                                                                    None)
                                                                    | None ->
                                                                    None)
                                                                    | None ->
                                                                    None)
                                                                    | _ :: _ ->
                                                                    None)))
                                                                    | SList _ ->
                                                                    None))))
                                                                    | _::_ ->
                                                                    None)
                                                                    else None
                                                                    else None
                                                                    else None)
                                                                    a2)
                                                                    else None
                                                                    else None
                                                                    else None
                                                                    else None)
                                                                    a1)
                                                                    else None
                                                                    else None
                                                                    else None
                                                               else None)
                                                               a)
                                                else None
                                           else None
                                 else if b4
                                      then if b5
                                           then if b6
                                                then if b7
                                                     then None
                                                     else (match s2 with
                                                           | [] -> None
                                                           | a1::s3 ->
                                                             (* If this appears, you're using Ascii internals. Please don't *)
 (fun f c ->
  let n = Char.code c in
  let h i = (n land (1 lsl i)) <> 0 in
  f (h 0) (h 1) (h 2) (h 3) (h 4) (h 5) (h 6) (h 7))
                                                               (fun b b8 b9 b10 b11 b12 b13 b14 ->
                                                               if b
                                                               then None
                                                               else if b8
                                                                    then 
                                                                    if b9
                                                                    then 
                                                                    if b10
                                                                    then 
                                                                    if b11
                                                                    then None
                                                                    else 
                                                                    if b12
                                                                    then 
                                                                    if b13
                                                                    then 
                                                                    if b14
                                                                    then None
                                                                    else 
                                                                    (match s3 with
                                                                    | [] ->
                                                                    (match l0 with
                                                                    | [] ->
                                                                    None
                                                                    | s4 :: l1 ->
                                                                    (match s4 with
                                                                    | SAtom op ->
                                                                    (match l1 with
                                                                    | [] ->
                                                                    None
                                                                    | a :: l2 ->
                                                                    (match l2 with
                                                                    | [] ->
                                                                    option_map
                                                                    (fun x ->
                                                                    CUn (op,
                                                                    x))
                                                                    (d_cexp_fuel
                                                                    f a)
                                                                    | _ :: _ ->
                                                                    None))
                                                                    | SList _ ->
                                                                    None))
                                                                    | _::_ ->
                                                                    None)
                                                                    else None
                                                                    else None
                                                                    else None
                                                                    else None
                                                                    else None)
                                                               a1)
                                                else None
                                           else None
                                      else None
                            else if b3
                                 then if b4
                                      then None
                                      else if b5
                                           then if b6
                                                then if b7
                                                     then None
                                                     else (match s2 with
                                                           | [] -> None
                                                           | a::s3 ->
                                                             (* If this appears, you're using Ascii internals. Please don't *)
 (fun f c ->
  let n = Char.code c in
  let h i = (n land (1 lsl i)) <> 0 in
  f (h 0) (h 1) (h 2) (h 3) (h 4) (h 5) (h 6) (h 7))
                                                               (fun b b8 b9 b10 b11 b12 b13 b14 ->
                                                               if b
                                                               then None
                                                               else if b8
                                                                    then 
                                                                    if b9
                                                                    then 
                                                                    if b10
                                                                    then 
                                                                    if b11
                                                                    then None
                                                                    else 
                                                                    if b12
                                                                    then 
                                                                    if b13
                                                                    then 
                                                                    if b14
                                                                    then None
                                                                    else 
                                                                    (match s3 with
                                                                    | [] ->
                                                                    None
                                                                    | a1::s4 ->
                                                                    (* If this appears, you're using Ascii internals. Please don't *)
 (fun f c ->
  let n = Char.code c in
  let h i = (n land (1 lsl i)) <> 0 in
  f (h 0) (h 1) (h 2) (h 3) (h 4) (h 5) (h 6) (h 7))
                                                                    (fun b15 b16 b17 b18 b19 b20 b21 b22 ->
                                                                    if b15
                                                                    then None
                                                                    else 
                                                                    if b16
                                                                    then None
                                                                    else 
                                                                    if b17
                                                                    then 
                                                                    if b18
                                                                    then None
                                                                    else 
                                                                    if b19
                                                                    then 
                                                                    if b20
                                                                    then 
                                                                    if b21
                                                                    then 
                                                                    if b22
                                                                    then None
                                                                    else 
                                                                    (match s4 with
                                                                    | [] ->
                                                                    (match l0 with
                                                                    | [] ->
                                                                    None
                                                                    | z0 :: l1 ->
                                                                    (match l1 with
                                                                    | [] ->
                                                                    option_map
                                                                    (fun x ->
                                                                    CInt x)
                                                                    (d_Z z0)
                                                                    | _ :: _ ->
                                                                    None))
                                                                    | _::_ ->
                                                                    None)
                                                                    else None
                                                                    else None
                                                                    else None
                                                                    else None)
                                                                    a1)
                                                                    else None
                                                                    else None
                                                                    else None
                                                                    else None
                                                                    else None)
                                                               a)
                                                else None
                                           else None
                                 else None
                  else if b1
                       then if b2
                            then if b3
                                 then if b4
                                      then None
                                      else if b5
                                           then if b6
                                                then if b7
                                                     then None
                                                     else (match s2 with
                                                           | [] -> None
                                                           | a1::s3 ->
                                                             (* If this appears, you're using Ascii internals. Please don't *)
 (fun f c ->
  let n = Char.code c in
  let h i = (n land (1 lsl i)) <> 0 in
  f (h 0) (h 1) (h 2) (h 3) (h 4) (h 5) (h 6) (h 7))
                                                               (fun b b8 b9 b10 b11 b12 b13 b14 ->
                                                               if b
                                                               then if b8
                                                                    then 
                                                                    if b9
                                                                    then 
                                                                    if b10
                                                                    then 
                                                                    if b11
                                                                    then None
                                                                    else 
                                                                    if b12
                                                                    then 
                                                                    if b13
                                                                    then 
                                                                    if b14
                                                                    then None
                                                                    else 
                                                                    (match s3 with
                                                                    | [] ->
                                                                    None
                                                                    | a2::s4 ->
                                                                    (* If this appears, you're using Ascii internals. Please don't *)
 (fun f c ->
  let n = Char.code c in
  let h i = (n land (1 lsl i)) <> 0 in
  f (h 0) (h 1) (h 2) (h 3) (h 4) (h 5) (h 6) (h 7))
                                                                    (fun b15 b16 b17 b18 b19 b20 b21 b22 ->
                                                                    if b15
                                                                    then None
                                                                    else 
                                                                    if b16
                                                                    then None
                                                                    else 
                                                                    if b17
                                                                    then 
                                                                    if b18
                                                                    then None
                                                                    else 
                                                                    if b19
                                                                    then 
                                                                    if b20
                                                                    then 
                                                                    if b21
                                                                    then 
                                                                    if b22
                                                                    then None
                                                                    else 
                                                                    (match s4 with
                                                                    | [] ->
                                                                    (match l0 with
                                                                    | [] ->
                                                                    None
                                                                    | a :: l1 ->
                                                                    (match l1 with
                                                                    | [] ->
                                                                    option_map
                                                                    (fun x ->
                                                                    CNot x)
                                                                    (d_cexp_fuel
                                                                    f a)
                                                                    | _ :: _ ->
                                                                    None))
                                                                    | _::_ ->
                                                                    None)
                                                                    else None
                                                                    else None
                                                                    else None
                                                                    else None)
                                                                    a2)
                                                                    else None
                                                                    else None
                                                                    else None
                                                                    else None
                                                                    else None
                                                               else None)
                                                               a1)
                                                else None
                                           else None
                                 else if b4
                                      then if b5
                                           then if b6
                                                then if b7
                                                     then None
                                                     else (match s2 with
                                                           | [] -> None
                                                           | a::s3 ->
                                                             (* If this appears, you're using Ascii internals. Please don't *)
 (fun f c ->
  let n = Char.code c in
  let h i = (n land (1 lsl i)) <> 0 in
  f (h 0) (h 1) (h 2) (h 3) (h 4) (h 5) (h 6) (h 7))
                                                               (fun b b8 b9 b10 b11 b12 b13 b14 ->
                                                               if b
                                                               then if b8
                                                                    then None
                                                                    else 
                                                                    if b9
                                                                    then None
                                                                    else 
                                                                    if b10
                                                                    then None
                                                                    else 
                                                                    if b11
                                                                    then None
                                                                    else 
                                                                    if b12
                                                                    then 
                                                                    if b13
                                                                    then 
                                                                    if b14
                                                                    then None
                                                                    else 
                                                                    (match s3 with
                                                                    | [] ->
                                                                    None
                                                                    | a1::s4 ->
                                                                    (* If this appears, you're using Ascii internals. Please don't *)
 (fun f c ->
  let n = Char.code c in
  let h i = (n land (1 lsl i)) <> 0 in
  f (h 0) (h 1) (h 2) (h 3) (h 4) (h 5) (h 6) (h 7))
                                                                    (fun b15 b16 b17 b18 b19 b20 b21 b22 ->
                                                                    if b15
                                                                    then None
                                                                    else 
                                                                    if b16
                                                                    then 
                                                                    if b17
                                                                    then None
                                                                    else 
                                                                    if b18
                                                                    then None
                                                                    else 
                                                                    if b19
                                                                    then 
                                                                    if b20
                                                                    then 
                                                                    if b21
                                                                    then 
                                                                    if b22
                                                                    then None
                                                                    else 
                                                                    (match s4 with
                                                                    | [] ->
                                                                    (match l0 with
                                                                    | [] ->
                                                                    None
                                                                    | s5 :: l1 ->
                                                                    (match s5 with
                                                                    | SAtom x ->
                                                                    (match l1 with
                                                                    | [] ->
                                                                    Some
                                                                    (CVar x)
                                                                    | _ :: _ ->
                                                                    None)
                                                                    | SList _ ->
                                                                    None))
                                                                    | _::_ ->
                                                                    None)
                                                                    else None
                                                                    else None
                                                                    else None
                                                                    else None)
                                                                    a1)
                                                                    else None
                                                                    else None
                                                               else None)
                                                               a)
                                                else None
                                           else None
                                      else if b5
                                           then if b6
                                                then if b7
                                                     then None
                                                     else (match s2 with
                                                           | [] -> None
                                                           | a::s3 ->
                                                             (* If this appears, you're using Ascii internals. Please don't *)
 (fun f c ->
  let n = Char.code c in
  let h i = (n land (1 lsl i)) <> 0 in
  f (h 0) (h 1) (h 2) (h 3) (h 4) (h 5) (h 6) (h 7))
                                                               (fun b b8 b9 b10 b11 b12 b13 b14 ->
                                                               if b
                                                               then if b8
                                                                    then None
                                                                    else 
                                                                    if b9
                                                                    then None
                                                                    else 
                                                                    if b10
                                                                    then 
                                                                    if b11
                                                                    then None
                                                                    else 
                                                                    if b12
                                                                    then 
                                                                    if b13
                                                                    then 
                                                                    if b14
                                                                    then None
                                                                    else 
                                                                    (match s3 with
                                                                    | [] ->
                                                                    None
                                                                    | a1::s4 ->
                                                                    (* If this appears, you're using Ascii internals. Please don't *)
 (fun f c ->
  let n = Char.code c in
  let h i = (n land (1 lsl i)) <> 0 in
  f (h 0) (h 1) (h 2) (h 3) (h 4) (h 5) (h 6) (h 7))
                                                                    (fun b15 b16 b17 b18 b19 b20 b21 b22 ->
                                                                    if b15
                                                                    then 
                                                                    if b16
                                                                    then None
                                                                    else 
                                                                    if b17
                                                                    then 
                                                                    if b18
                                                                    then None
                                                                    else 
                                                                    if b19
                                                                    then None
                                                                    else 
                                                                    if b20
                                                                    then 
                                                                    if b21
                                                                    then 
                                                                    if b22
                                                                    then None
                                                                    else 
                                                                    (match s4 with
                                                                    | [] ->
                                                                    None
                                                                    | a2::s5 ->
                                                                    (* If this appears, you're using Ascii internals. Please don't *)
 (fun f c ->
  let n = Char.code c in
  let h i = (n land (1 lsl i)) <> 0 in
  f (h 0) (h 1) (h 2) (h 3) (h 4) (h 5) (h 6) (h 7))
                                                                    (fun b23 b24 b25 b26 b27 b28 b29 b30 ->
                                                                    if b23
                                                                    then None
                                                                    else 
                                                                    if b24
                                                                    then None
                                                                    else 
                                                                    if b25
                                                                    then 
                                                                    if b26
                                                                    then 
                                                                    if b27
                                                                    then None
                                                                    else 
                                                                    if b28
                                                                    then 
                                                                    if b29
                                                                    then 
                                                                    if b30
                                                                    then None
                                                                    else 
                                                                    (match s5 with
                                                                    | [] ->
                                                                    None
                                                                    | a3::s6 ->
                                                                    (* If this appears, you're using Ascii internals. Please don't *)
 (fun f c ->
  let n = Char.code c in
  let h i = (n land (1 lsl i)) <> 0 in
  f (h 0) (h 1) (h 2) (h 3) (h 4) (h 5) (h 6) (h 7))
                                                                    (fun b31 b32 b33 b34 b35 b36 b37 b38 ->
                                                                    if b31
                                                                    then None
                                                                    else 
                                                                    if b32
                                                                    then None
                                                                    else 
                                                                    if b33
                                                                    then 
                                                                    if b34
                                                                    then None
                                                                    else 
                                                                    if b35
                                                                    then None
                                                                    else 
                                                                    if b36
                                                                    then 
                                                                    if b37
                                                                    then 
                                                                    if b38
                                                                    then None
                                                                    else 
                                                                    (match s6 with
                                                                    | [] ->
                                                                    (match l0 with
                                                                    | [] ->
                                                                    None
                                                                    | o :: l1 ->
                                                                    (match l1 with
                                                                    | [] ->
                                                                    None
                                                                    | ar :: l2 ->
                                                                    (match l2 with
                                                                    | [] ->
                                                                    None
                                                                    | s7 :: l3 ->
                                                                    (match s7 with
                                                                    | SAtom m ->
                                                                    (match l3 with
                                                                    | [] ->
                                                                    (match 
                                                                    d_cexp_fuel
                                                                    f o with
                                                                    | Some o' ->
                                                                    (match 
                                                                    d_bool ar with
                                                                    | Some ar' ->
                                                                    Some
                                                                    (CField
                                                                    (o', ar',
                                                                    m))
                                                                    | None ->
                                                                    None)
                                                                    | None ->
                                                                    None)
                                                                    | _ :: _ ->
                                                                    None)
                                                                    | SList _ ->
                                                                    None))))
                                                                    | _::_ ->
                                                                    None)
                                                                    else None
                                                                    else None
                                                                    else None)
                                                                    a3)
                                                                    else None
                                                                    else None
                                                                    else None
                                                                    else None)
                                                                    a2)
                                                                    else None
                                                                    else None
                                                                    else None
                                                                    else None)
                                                                    a1)
                                                                    else None
                                                                    else None
                                                                    else None
                                                               else None)
                                                               a)
                                                else None
                                           else None
                            else if b3
                                 then None
                                 else if b4
                                      then None
                                      else if b5
                                           then if b6
                                                then if b7
                                                     then None
                                                     else (match s2 with
                                                           | [] -> None
                                                           | a1::s3 ->
                                                             (* If this appears, you're using Ascii internals. Please don't *)
 (fun f c ->
  let n = Char.code c in
  let h i = (n land (1 lsl i)) <> 0 in
  f (h 0) (h 1) (h 2) (h 3) (h 4) (h 5) (h 6) (h 7))
                                                               (fun b8 b9 b10 b11 b12 b13 b14 b15 ->
                                                               if b8
                                                               then if b9
                                                                    then 
                                                                    if b10
                                                                    then 
                                                                    if b11
                                                                    then 
                                                                    if b12
                                                                    then None
                                                                    else 
                                                                    if b13
                                                                    then 
                                                                    if b14
                                                                    then 
                                                                    if b15
                                                                    then None
                                                                    else 
                                                                    (match s3 with
                                                                    | [] ->
                                                                    None
                                                                    | a::s4 ->
                                                                    (* If this appears, you're using Ascii internals. Please don't *)
 (fun f c ->
  let n = Char.code c in
  let h i = (n land (1 lsl i)) <> 0 in
  f (h 0) (h 1) (h 2) (h 3) (h 4) (h 5) (h 6) (h 7))
                                                                    (fun b16 b17 b18 b19 b20 b21 b22 b23 ->
                                                                    if b16
                                                                    then 
                                                                    if b17
                                                                    then 
                                                                    if b18
                                                                    then 
                                                                    if b19
                                                                    then 
                                                                    if b20
                                                                    then None
                                                                    else 
                                                                    if b21
                                                                    then 
                                                                    if b22
                                                                    then 
                                                                    if b23
                                                                    then None
                                                                    else 
                                                                    (match s4 with
                                                                    | [] ->
                                                                    None
                                                                    | a2::s5 ->
                                                                    (* If this appears, you're using Ascii internals. Please don't *)
 (fun f c ->
  let n = Char.code c in
  let h i = (n land (1 lsl i)) <> 0 in
  f (h 0) (h 1) (h 2) (h 3) (h 4) (h 5) (h 6) (h 7))
                                                                    (fun b24 b25 b26 b27 b28 b29 b30 b31 ->
                                                                    if b24
                                                                    then None
                                                                    else 
                                                                    if b25
                                                                    then None
                                                                    else 
                                                                    if b26
                                                                    then 
                                                                    if b27
                                                                    then 
                                                                    if b28
                                                                    then None
                                                                    else 
                                                                    if b29
                                                                    then 
                                                                    if b30
                                                                    then 
                                                                    if b31
                                                                    then None
                                                                    else 
                                                                    (match s5 with
                                                                    | [] ->
                                                                    (match l0 with
                                                                    | [] ->
                                                                    None
                                                                    | b :: l1 ->
                                                                    (match l1 with
                                                                    | [] ->
                                                                    option_map
                                                                    (fun x ->
                                                                    CBool x)
                                                                    (d_bool b)
                                                                    | _ :: _ ->
                                                                    None))
                                                                    | _::_ ->
                                                                    None)
                                                                    else None
                                                                    else None
                                                                    else None
                                                                    else None)
                                                                    a2)
                                                                    else None
                                                                    else None
                                                                    else None
                                                                    else None
                                                                    else None
                                                                    else None)
                                                                    a)
                                                                    else None
                                                                    else None
                                                                    else None
                                                                    else None
                                                                    else 
                                                                    if b10
                                                                    then None
                                                                    else 
                                                                    if b11
                                                                    then 
                                                                    if b12
                                                                    then None
                                                                    else 
                                                                    if b13
                                                                    then 
                                                                    if b14
                                                                    then 
                                                                    if b15
                                                                    then None
                                                                    else 
                                                                    (match s3 with
                                                                    | [] ->
                                                                    None
                                                                    | a2::s4 ->
                                                                    (* If this appears, you're using Ascii internals. Please don't *)
 (fun f c ->
  let n = Char.code c in
  let h i = (n land (1 lsl i)) <> 0 in
  f (h 0) (h 1) (h 2) (h 3) (h 4) (h 5) (h 6) (h 7))
                                                                    (fun b16 b17 b18 b19 b20 b21 b22 b23 ->
                                                                    if b16
                                                                    then None
                                                                    else 
                                                                    if b17
                                                                    then 
                                                                    if b18
                                                                    then 
                                                                    if b19
                                                                    then 
                                                                    if b20
                                                                    then None
                                                                    else 
                                                                    if b21
                                                                    then 
                                                                    if b22
                                                                    then 
                                                                    if b23
                                                                    then None
                                                                    else 
                                                                    (match s4 with
                                                                    | [] ->
                                                                    (match l0 with
                                                                    | [] ->
                                                                    None
                                                                    | s5 :: l1 ->
                                                                    (match s5 with
                                                                    | SAtom op ->
                                                                    (match l1 with
                                                                    | [] ->
                                                                    None
                                                                    | a :: l2 ->
                                                                    (match l2 with
                                                                    | [] ->
                                                                    None
                                                                    | b :: l3 ->
                                                                    (match l3 with
                                                                    | [] ->
                                                                    (match 
                                                                    d_cexp_fuel
                                                                    f a with
                                                                    | Some a' ->
                                                                    (match 
                                                                    d_cexp_fuel
                                                                    f b with
                                                                    | Some b' ->
                                                                    Some
                                                                    (CBin
                                                                    (op, a',
                                                                    b'))
                                                                    | None ->
                                                                    None)
                                                                    | None ->
                                                                    None)
                                                                    | _ :: _ ->
                                                                    None)))
                                                                    | SList _ ->
                                                                    None))
                                                                    | _::_ ->
                                                                    None)
                                                                    else None
                                                                    else None
                                                                    else None
                                                                    else None
                                                                    else None)
                                                                    a2)
                                                                    else None
                                                                    else None
                                                                    else None
                                                               else None)
                                                               a1)
                                                else None
                                           else None
                       else if b2
                            then if b3
                                 then None
                                 else if b4
                                      then None
                                      else if b5
                                           then if b6
                                                then if b7
                                                     then None
                                                     else (match s2 with
                                                           | [] -> None
                                                           | a1::s3 ->
                                                             (* If this appears, you're using Ascii internals. Please don't *)
 (fun f c ->
  let n = Char.code c in
  let h i = (n land (1 lsl i)) <> 0 in
  f (h 0) (h 1) (h 2) (h 3) (h 4) (h 5) (h 6) (h 7))
                                                               (fun b b8 b9 b10 b11 b12 b13 b14 ->
                                                               if b
                                                               then if b8
                                                                    then None
                                                                    else 
                                                                    if b9
                                                                    then 
                                                                    if b10
                                                                    then None
                                                                    else 
                                                                    if b11
                                                                    then None
                                                                    else 
                                                                    if b12
                                                                    then 
                                                                    if b13
                                                                    then 
                                                                    if b14
                                                                    then None
                                                                    else 
                                                                    (match s3 with
                                                                    | [] ->
                                                                    None
                                                                    | a2::s4 ->
                                                                    (* If this appears, you're using Ascii internals. Please don't *)
 (fun f c ->
  let n = Char.code c in
  let h i = (n land (1 lsl i)) <> 0 in
  f (h 0) (h 1) (h 2) (h 3) (h 4) (h 5) (h 6) (h 7))
                                                                    (fun b15 b16 b17 b18 b19 b20 b21 b22 ->
                                                                    if b15
                                                                    then None
                                                                    else 
                                                                    if b16
                                                                    then 
                                                                    if b17
                                                                    then None
                                                                    else 
                                                                    if b18
                                                                    then None
                                                                    else 
                                                                    if b19
                                                                    then 
                                                                    if b20
                                                                    then 
                                                                    if b21
                                                                    then 
                                                                    if b22
                                                                    then None
                                                                    else 
                                                                    (match s4 with
                                                                    | [] ->
                                                                    None
                                                                    | a3::s5 ->
                                                                    (* If this appears, you're using Ascii internals. Please don't *)
 (fun f c ->
  let n = Char.code c in
  let h i = (n land (1 lsl i)) <> 0 in
  f (h 0) (h 1) (h 2) (h 3) (h 4) (h 5) (h 6) (h 7))
                                                                    (fun b23 b24 b25 b26 b27 b28 b29 b30 ->
                                                                    if b23
                                                                    then 
                                                                    if b24
                                                                    then None
                                                                    else 
                                                                    if b25
                                                                    then 
                                                                    if b26
                                                                    then None
                                                                    else 
                                                                    if b27
                                                                    then None
                                                                    else 
                                                                    if b28
                                                                    then 
                                                                    if b29
                                                                    then 
                                                                    if b30
                                                                    then None
                                                                    else 
                                                                    (match s5 with
                                                                    | [] ->
                                                                    None
                                                                    | a4::s6 ->
                                                                    (* If this appears, you're using Ascii internals. Please don't *)
 (fun f c ->
  let n = Char.code c in
  let h i = (n land (1 lsl i)) <> 0 in
  f (h 0) (h 1) (h 2) (h 3) (h 4) (h 5) (h 6) (h 7))
                                                                    (fun b31 b32 b33 b34 b35 b36 b37 b38 ->
                                                                    if b31
                                                                    then None
                                                                    else 
                                                                    if b32
                                                                    then 
                                                                    if b33
                                                                    then 
                                                                    if b34
                                                                    then None
                                                                    else 
                                                                    if b35
                                                                    then None
                                                                    else 
                                                                    if b36
                                                                    then 
                                                                    if b37
                                                                    then 
                                                                    if b38
                                                                    then None
                                                                    else 
                                                                    (match s6 with
                                                                    | [] ->
                                                                    (match l0 with
                                                                    | [] ->
                                                                    None
                                                                    | a :: l1 ->
                                                                    (match l1 with
                                                                    | [] ->
                                                                    option_map
                                                                    (fun x ->
                                                                    CDeref x)
                                                                    (d_cexp_fuel
                                                                    f a)
                                                                    | _ :: _ ->
                                                                    None))
                                                                    | _::_ ->
                                                                    None)
                                                                    else None
                                                                    else None
                                                                    else None
                                                                    else None)
                                                                    a4)
                                                                    else None
                                                                    else None
                                                                    else None
                                                                    else None)
                                                                    a3)
                                                                    else None
                                                                    else None
                                                                    else None
                                                                    else None)
                                                                    a2)
                                                                    else None
                                                                    else None
                                                                    else None
                                                               else if b8
                                                                    then 
                                                                    if b9
                                                                    then None
                                                                    else 
                                                                    if b10
                                                                    then None
                                                                    else 
                                                                    if b11
                                                                    then None
                                                                    else 
                                                                    if b12
                                                                    then 
                                                                    if b13
                                                                    then 
                                                                    if b14
                                                                    then None
                                                                    else 
                                                                    (match s3 with
                                                                    | [] ->
                                                                    None
                                                                    | a::s4 ->
                                                                    (* If this appears, you're using Ascii internals. Please don't *)
 (fun f c ->
  let n = Char.code c in
  let h i = (n land (1 lsl i)) <> 0 in
  f (h 0) (h 1) (h 2) (h 3) (h 4) (h 5) (h 6) (h 7))
                                                                    (fun b15 b16 b17 b18 b19 b20 b21 b22 ->
                                                                    if b15
                                                                    then None
                                                                    else 
                                                                    if b16
                                                                    then None
                                                                    else 
                                                                    if b17
                                                                    then 
                                                                    if b18
                                                                    then 
                                                                    if b19
                                                                    then None
                                                                    else 
                                                                    if b20
                                                                    then 
                                                                    if b21
                                                                    then 
                                                                    if b22
                                                                    then None
                                                                    else 
                                                                    (match s4 with
                                                                    | [] ->
                                                                    (match l0 with
                                                                    | [] ->
                                                                    None
                                                                    | s5 :: l1 ->
                                                                    (match s5 with
                                                                    | SAtom t ->
                                                                    (match l1 with
                                                                    | [] ->
                                                                    None
                                                                    | n0 :: l2 ->
                                                                    (match l2 with
                                                                    | [] ->
                                                                    None
                                                                    | d :: l3 ->
                                                                    (match l3 with
                                                                    | [] ->
                                                                    (match 
                                                                    d_Z n0 with
                                                                    | Some n' ->
                                                                    (match 
                                                                    d_Z d with
                                                                    | Some z0 ->
                                                                    (match z0 with
                                                                    | Zpos d' ->
                                                                    Some
                                                                    (CDbl (t,
                                                                    n', d'))
                                                                    | _ ->
                                                                    None)
                                                                    | None ->
                                                                    None)
                                                                    | None ->
                                                                    None)
                                                                    | _ :: _ ->
                                                                    None)))
                                                                    | SList _ ->
                                                                    None))
                                                                    | _::_ ->
                                                                    None)
                                                                    else None
                                                                    else None
                                                                    else None
                                                                    else None)
                                                                    a)
                                                                    else None
                                                                    else None
                                                                    else None)
                                                               a1)
                                                else None
                                           else None
                            else None)
                  a0)
           | SList _ -> None)))

(** val sexp_depth : sexp -> nat **)

let rec sexp_depth = function
| SAtom _ -> S O
| SList l -> S (fold_right (fun x acc -> Nat.max (sexp_depth x) acc) O l)

(** val d_cexp : sexp -> cexp option **)

let d_cexp s =
  d_cexp_fuel (S (sexp_depth s)) s

(** val d_opt : (sexp -> 'a1 option) -> sexp -> 'a1 option option **)

let d_opt d = function
| SAtom _ -> None
| SList l ->
  (match l with
   | [] -> Some None
   | x :: l0 ->
     (match l0 with
      | [] -> option_map (fun x0 -> Some x0) (d x)
      | _ :: _ -> None))

(** val d_decl : sexp -> decl option **)

let d_decl = function
| SAtom _ -> None
| SList l ->
  (match l with
   | [] -> None
   | s0 :: l0 ->
     (match s0 with
      | SAtom t ->
        (match l0 with
         | [] -> None
         | s1 :: l1 ->
           (match s1 with
            | SAtom n0 ->
              (match l1 with
               | [] -> None
               | i :: l2 ->
                 (match l2 with
                  | [] ->
                    (match d_opt d_cexp i with
                     | Some i' ->
                       Some { d_type = t; d_name = n0; d_init = i' }
                     | None -> None)
                  | _ :: _ -> None))
            | SList _ -> None))
      | SList _ -> None))

(** val d_stmt_fuel : nat -> sexp -> stmt option **)

let rec d_stmt_fuel fuel s =
  match fuel with
  | O -> None
  | S f ->
    let dstmts =
      let rec dstmts = function
      | [] -> Some SNil
      | x :: r ->
        (match d_stmt_fuel f x with
         | Some a ->
           (match dstmts r with
            | Some r' -> Some (SCons (a, r'))
            | None -> None)
         | None -> None)
      in dstmts
    in
    let dblock = fun b ->
      match b with
      | SAtom _ -> None
      | SList l ->
        (match l with
         | [] -> None
         | s0 :: l0 ->
           (match s0 with
            | SAtom s1 ->
              (match s1 with
               | [] -> None
               | a::s2 ->
                 (* If this appears, you're using Ascii internals. Please don't *)
 (fun f c ->
  let n = Char.code c in
  let h i = (n land (1 lsl i)) <> 0 in
  f (h 0) (h 1) (h 2) (h 3) (h 4) (h 5) (h 6) (h 7))
                   (fun b0 b1 b2 b3 b4 b5 b6 b7 ->
                   if b0
                   then None
                   else if b1
                        then if b2
                             then None
                             else if b3
                                  then None
                                  else if b4
                                       then None
                                       else if b5
                                            then if b6
                                                 then if b7
                                                      then None
                                                      else (match s2 with
                                                            | [] -> None
                                                            | a0::s3 ->
                                                              (* If this appears, you're using Ascii internals. Please don't *)
 (fun f c ->
  let n = Char.code c in
  let h i = (n land (1 lsl i)) <> 0 in
  f (h 0) (h 1) (h 2) (h 3) (h 4) (h 5) (h 6) (h 7))
                                                                (fun b8 b9 b10 b11 b12 b13 b14 b15 ->
                                                                if b8
                                                                then None
                                                                else 
                                                                  if b9
                                                                  then None
                                                                  else 
                                                                    if b10
                                                                    then 
                                                                    if b11
                                                                    then 
                                                                    if b12
                                                                    then None
                                                                    else 
                                                                    if b13
                                                                    then 
                                                                    if b14
                                                                    then 
                                                                    if b15
                                                                    then None
                                                                    else 
                                                                    (match s3 with
                                                                    | [] ->
                                                                    None
                                                                    | a1::s4 ->
                                                                    (* If this appears, you're using Ascii internals. Please don't *)
 (fun f c ->
  let n = Char.code c in
  let h i = (n land (1 lsl i)) <> 0 in
  f (h 0) (h 1) (h 2) (h 3) (h 4) (h 5) (h 6) (h 7))
                                                                    (fun b16 b17 b18 b19 b20 b21 b22 b23 ->
                                                                    if b16
                                                                    then 
                                                                    if b17
                                                                    then 
                                                                    if b18
                                                                    then None
                                                                    else 
                                                                    if b19
                                                                    then 
                                                                    if b20
                                                                    then None
                                                                    else 
                                                                    if b21
                                                                    then 
                                                                    if b22
                                                                    then 
                                                                    if b23
                                                                    then None
                                                                    else 
                                                                    (match s4 with
                                                                    | [] ->
                                                                    (match l0 with
                                                                    | [] ->
                                                                    None
                                                                    | s5 :: l1 ->
                                                                    (match s5 with
                                                                    | SAtom _ ->
                                                                    None
                                                                    | SList ds ->
                                                                    (match l1 with
                                                                    | [] ->
                                                                    None
                                                                    | s6 :: l2 ->
                                                                    (match s6 with
                                                                    | SAtom _ ->
                                                                    None
                                                                    | SList body ->
                                                                    (match l2 with
                                                                    | [] ->
                                                                    (match 
                                                                    d_list
                                                                    d_decl ds with
                                                                    | Some ds' ->
                                                                    (match 
                                                                    dstmts
                                                                    body with
                                                                    | Some body' ->
                                                                    Some (Blk
                                                                    (ds',
                                                                    body'))
                                                                    | None ->
                                                                    None)
                                                                    | None ->
                                                                    None)
                                                                    | _ :: _ ->
                                                                    None)))))
                                                                    | _::_ ->
                                                                    None)
                                                                    else None
                                                                    else None
                                                                    else None
                                                                    else None
                                                                    else None)
                                                                    a1)
                                                                    else None
                                                                    else None
                                                                    else None
                                                                    else None)
                                                                a0)
                                                 else None
                                            else None
                        else None)
                   a)
            | SList _ -> None))
    in
    (match s with
     | SAtom _ -> None
     | SList l0 ->
       (match l0 with
        | [] -> None
        | s0 :: l1 ->
          (match s0 with
           | SAtom s1 ->
             (match s1 with
              | [] -> None
              | a::s2 ->
                (* If this appears, you're using Ascii internals. Please don't *)
 (fun f c ->
  let n = Char.code c in
  let h i = (n land (1 lsl i)) <> 0 in
  f (h 0) (h 1) (h 2) (h 3) (h 4) (h 5) (h 6) (h 7))
                  (fun b0 b1 b2 b3 b4 b5 b6 b7 ->
                  if b0
                  then if b1
                       then if b2
                            then None
                            else if b3
                                 then None
                                 else if b4
                                      then if b5
                                           then if b6
                                                then if b7
                                                     then None
                                                     else (match s2 with
                                                           | [] -> None
                                                           | a0::s3 ->
                                                             (* If this appears, you're using Ascii internals. Please don't *)
 (fun f c ->
  let n = Char.code c in
  let h i = (n land (1 lsl i)) <> 0 in
  f (h 0) (h 1) (h 2) (h 3) (h 4) (h 5) (h 6) (h 7))
                                                               (fun b b8 b9 b10 b11 b12 b13 b14 ->
                                                               if b
                                                               then if b8
                                                                    then None
                                                                    else 
                                                                    if b9
                                                                    then 
                                                                    if b10
                                                                    then None
                                                                    else 
                                                                    if b11
                                                                    then None
                                                                    else 
                                                                    if b12
                                                                    then 
                                                                    if b13
                                                                    then 
                                                                    if b14
                                                                    then None
                                                                    else 
                                                                    (match s3 with
                                                                    | [] ->
                                                                    None
                                                                    | a1::s4 ->
                                                                    (* If this appears, you're using Ascii internals. Please don't *)
 (fun f c ->
  let n = Char.code c in
  let h i = (n land (1 lsl i)) <> 0 in
  f (h 0) (h 1) (h 2) (h 3) (h 4) (h 5) (h 6) (h 7))
                                                                    (fun b15 b16 b17 b18 b19 b20 b21 b22 ->
                                                                    if b15
                                                                    then None
                                                                    else 
                                                                    if b16
                                                                    then None
                                                                    else 
                                                                    if b17
                                                                    then 
                                                                    if b18
                                                                    then None
                                                                    else 
                                                                    if b19
                                                                    then 
                                                                    if b20
                                                                    then 
                                                                    if b21
                                                                    then 
                                                                    if b22
                                                                    then None
                                                                    else 
                                                                    (match s4 with
                                                                    | [] ->
                                                                    (match l1 with
                                                                    | [] ->
                                                                    None
                                                                    | s5 :: l ->
                                                                    (match s5 with
                                                                    | SAtom x ->
                                                                    (match l with
                                                                    | [] ->
                                                                    None
                                                                    | c :: l2 ->
                                                                    (match l2 with
                                                                    | [] ->
                                                                    None
                                                                    | e :: l3 ->
                                                                    (match l3 with
                                                                    | [] ->
                                                                    (match 
                                                                    d_opt
                                                                    d_str c with
                                                                    | Some c' ->
                                                                    (match 
                                                                    d_cexp e with
                                                                    | Some e' ->
                                                                    Some
                                                                    (SSet (x,
                                                                    c', e'))
                                                                    | None ->
                                                                    None)
                                                                    | None ->
                                                                    None)
                                                                    | _ :: _ ->
                                                                    None)))
                                                                    | SList _ ->
                                                                    None))
                                                                    | _::_ ->
                                                                    None)
                                                                    else None
                                                                    else None
                                                                    else None
                                                                    else None)
                                                                    a1)
                                                                    else None
                                                                    else None
                                                                    else None
                                                               else None)
                                                               a0)
                                                else None
                                           else None
                                      else if b5
                                           then if b6
                                                then if b7
                                                     then None
                                                     else (match s2 with
                                                           | [] -> None
                                                           | a0::s3 ->
                                                             (* If this appears, you're using Ascii internals. Please don't *)
 (fun f c ->
  let n = Char.code c in
  let h i = (n land (1 lsl i)) <> 0 in
  f (h 0) (h 1) (h 2) (h 3) (h 4) (h 5) (h 6) (h 7))
                                                               (fun b b8 b9 b10 b11 b12 b13 b14 ->
                                                               if b
                                                               then None
                                                               else if b8
                                                                    then None
                                                                    else 
                                                                    if b9
                                                                    then 
                                                                    if b10
                                                                    then 
                                                                    if b11
                                                                    then None
                                                                    else 
                                                                    if b12
                                                                    then 
                                                                    if b13
                                                                    then 
                                                                    if b14
                                                                    then None
                                                                    else 
                                                                    (match s3 with
                                                                    | [] ->
                                                                    None
                                                                    | a1::s4 ->
                                                                    (* If this appears, you're using Ascii internals. Please don't *)
 (fun f c ->
  let n = Char.code c in
  let h i = (n land (1 lsl i)) <> 0 in
  f (h 0) (h 1) (h 2) (h 3) (h 4) (h 5) (h 6) (h 7))
                                                                    (fun b15 b16 b17 b18 b19 b20 b21 b22 ->
                                                                    if b15
                                                                    then 
                                                                    if b16
                                                                    then None
                                                                    else 
                                                                    if b17
                                                                    then 
                                                                    if b18
                                                                    then None
                                                                    else 
                                                                    if b19
                                                                    then None
                                                                    else 
                                                                    if b20
                                                                    then 
                                                                    if b21
                                                                    then 
                                                                    if b22
                                                                    then None
                                                                    else 
                                                                    (match s4 with
                                                                    | [] ->
                                                                    None
                                                                    | a2::s5 ->
                                                                    (* If this appears, you're using Ascii internals. Please don't *)
 (fun f c ->
  let n = Char.code c in
  let h i = (n land (1 lsl i)) <> 0 in
  f (h 0) (h 1) (h 2) (h 3) (h 4) (h 5) (h 6) (h 7))
                                                                    (fun b23 b24 b25 b26 b27 b28 b29 b30 ->
                                                                    if b23
                                                                    then 
                                                                    if b24
                                                                    then None
                                                                    else 
                                                                    if b25
                                                                    then None
                                                                    else 
                                                                    if b26
                                                                    then None
                                                                    else 
                                                                    if b27
                                                                    then None
                                                                    else 
                                                                    if b28
                                                                    then 
                                                                    if b29
                                                                    then 
                                                                    if b30
                                                                    then None
                                                                    else 
                                                                    (match s5 with
                                                                    | [] ->
                                                                    None
                                                                    | a3::s6 ->
                                                                    (* If this appears, you're using Ascii internals. Please don't *)
 (fun f c ->
  let n = Char.code c in
  let h i = (n land (1 lsl i)) <> 0 in
  f (h 0) (h 1) (h 2) (h 3) (h 4) (h 5) (h 6) (h 7))
                                                                    (fun b31 b32 b33 b34 b35 b36 b37 b38 ->
                                                                    if b31
                                                                    then None
                                                                    else 
                                                                    if b32
                                                                    then 
                                                                    if b33
                                                                    then None
                                                                    else 
                                                                    if b34
                                                                    then None
                                                                    else 
                                                                    if b35
                                                                    then 
                                                                    if b36
                                                                    then 
                                                                    if b37
                                                                    then 
                                                                    if b38
                                                                    then None
                                                                    else 
                                                                    (match s6 with
                                                                    | [] ->
                                                                    (match l1 with
                                                                    | [] ->
                                                                    None
                                                                    | s7 :: l ->
                                                                    (match s7 with
                                                                    | SAtom x ->
                                                                    (match l with
                                                                    | [] ->
                                                                    Some
                                                                    (SClear x)
                                                                    | _ :: _ ->
                                                                    None)
                                                                    | SList _ ->
                                                                    None))
                                                                    | _::_ ->
                                                                    None)
                                                                    else None
                                                                    else None
                                                                    else None
                                                                    else None)
                                                                    a3)
                                                                    else None
                                                                    else None
                                                                    else None)
                                                                    a2)
                                                                    else None
                                                                    else None
                                                                    else None
                                                                    else None)
                                                                    a1)
                                                                    else None
                                                                    else None
                                                                    else None
                                                                    else None)
                                                               a0)
                                                else None
                                           else None
                       else if b2
                            then if b3
                                 then None
                                 else if b4
                                      then if b5
                                           then if b6
                                                then if b7
                                                     then None
                                                     else (match s2 with
                                                           | [] -> None
                                                           | a0::s3 ->
                                                             (* If this appears, you're using Ascii internals. Please don't *)
 (fun f c ->
  let n = Char.code c in
  let h i = (n land (1 lsl i)) <> 0 in
  f (h 0) (h 1) (h 2) (h 3) (h 4) (h 5) (h 6) (h 7))
                                                               (fun b b8 b9 b10 b11 b12 b13 b14 ->
                                                               if b
                                                               then if b8
                                                                    then 
                                                                    if b9
                                                                    then None
                                                                    else 
                                                                    if b10
                                                                    then None
                                                                    else 
                                                                    if b11
                                                                    then 
                                                                    if b12
                                                                    then 
                                                                    if b13
                                                                    then 
                                                                    if b14
                                                                    then None
                                                                    else 
                                                                    (match s3 with
                                                                    | [] ->
                                                                    None
                                                                    | a1::s4 ->
                                                                    (* If this appears, you're using Ascii internals. Please don't *)
 (fun f c ->
  let n = Char.code c in
  let h i = (n land (1 lsl i)) <> 0 in
  f (h 0) (h 1) (h 2) (h 3) (h 4) (h 5) (h 6) (h 7))
                                                                    (fun b15 b16 b17 b18 b19 b20 b21 b22 ->
                                                                    if b15
                                                                    then 
                                                                    if b16
                                                                    then None
                                                                    else 
                                                                    if b17
                                                                    then 
                                                                    if b18
                                                                    then None
                                                                    else 
                                                                    if b19
                                                                    then None
                                                                    else 
                                                                    if b20
                                                                    then 
                                                                    if b21
                                                                    then 
                                                                    if b22
                                                                    then None
                                                                    else 
                                                                    (match s4 with
                                                                    | [] ->
                                                                    None
                                                                    | a2::s5 ->
                                                                    (* If this appears, you're using Ascii internals. Please don't *)
 (fun f c ->
  let n = Char.code c in
  let h i = (n land (1 lsl i)) <> 0 in
  f (h 0) (h 1) (h 2) (h 3) (h 4) (h 5) (h 6) (h 7))
                                                                    (fun b23 b24 b25 b26 b27 b28 b29 b30 ->
                                                                    if b23
                                                                    then None
                                                                    else 
                                                                    if b24
                                                                    then 
                                                                    if b25
                                                                    then None
                                                                    else 
                                                                    if b26
                                                                    then None
                                                                    else 
                                                                    if b27
                                                                    then 
                                                                    if b28
                                                                    then 
                                                                    if b29
                                                                    then 
                                                                    if b30
                                                                    then None
                                                                    else 
                                                                    (match s5 with
                                                                    | [] ->
                                                                    (match l1 with
                                                                    | [] ->
                                                                    None
                                                                    | lines :: l ->
                                                                    (match l with
                                                                    | [] ->
                                                                    None
                                                                    | ids :: l2 ->
                                                                    (match l2 with
                                                                    | [] ->
                                                                    None
                                                                    | t :: l3 ->
                                                                    (match l3 with
                                                                    | [] ->
                                                                    (match 
                                                                    d_strs
                                                                    lines with
                                                                    | Some l' ->
                                                                    (match 
                                                                    d_strs ids with
                                                                    | Some i' ->
                                                                    (match 
                                                                    d_opt
                                                                    d_str t with
                                                                    | Some t' ->
                                                                    Some
                                                                    (SUser
                                                                    (l', i',
                                                                    t'))
                                                                    | None ->
                                                                    None)
                                                                    | None ->
                                                                    None)
                                                                    | None ->
                                                                    None)
                                                                    | _ :: _ ->
                                                                    None))))
                                                                    | _::_ ->
                                                                    None)
                                                                    else None
                                                                    else None
                                                                    else None
                                                                    else None)
                                                                    a2)
                                                                    else None
                                                                    else None
                                                                    else None
                                                                    else None)
                                                                    a1)
                                                                    else None
                                                                    else None
                                                                    else None
                                                                    else None
                                                               else None)
                                                               a0)
                                                else None
                                           else None
                                      else None
                            else if b3
                                 then if b4
                                      then None
                                      else if b5
                                           then if b6
                                                then if b7
                                                     then None
                                                     else (match s2 with
                                                           | [] -> None
                                                           | a0::s3 ->
                                                             (* If this appears, you're using Ascii internals. Please don't *)
 (fun f c ->
  let n = Char.code c in
  let h i = (n land (1 lsl i)) <> 0 in
  f (h 0) (h 1) (h 2) (h 3) (h 4) (h 5) (h 6) (h 7))
                                                               (fun b8 b9 b10 b11 b12 b13 b14 b15 ->
                                                               if b8
                                                               then if b9
                                                                    then 
                                                                    if b10
                                                                    then 
                                                                    if b11
                                                                    then 
                                                                    if b12
                                                                    then None
                                                                    else 
                                                                    if b13
                                                                    then 
                                                                    if b14
                                                                    then 
                                                                    if b15
                                                                    then None
                                                                    else 
                                                                    (match s3 with
                                                                    | [] ->
                                                                    None
                                                                    | a1::s4 ->
                                                                    (* If this appears, you're using Ascii internals. Please don't *)
 (fun f c ->
  let n = Char.code c in
  let h i = (n land (1 lsl i)) <> 0 in
  f (h 0) (h 1) (h 2) (h 3) (h 4) (h 5) (h 6) (h 7))
                                                                    (fun b16 b17 b18 b19 b20 b21 b22 b23 ->
                                                                    if b16
                                                                    then None
                                                                    else 
                                                                    if b17
                                                                    then None
                                                                    else 
                                                                    if b18
                                                                    then 
                                                                    if b19
                                                                    then None
                                                                    else 
                                                                    if b20
                                                                    then 
                                                                    if b21
                                                                    then 
                                                                    if b22
                                                                    then 
                                                                    if b23
                                                                    then None
                                                                    else 
                                                                    (match s4 with
                                                                    | [] ->
                                                                    None
                                                                    | a2::s5 ->
                                                                    (* If this appears, you're using Ascii internals. Please don't *)
 (fun f c ->
  let n = Char.code c in
  let h i = (n land (1 lsl i)) <> 0 in
  f (h 0) (h 1) (h 2) (h 3) (h 4) (h 5) (h 6) (h 7))
                                                                    (fun b24 b25 b26 b27 b28 b29 b30 b31 ->
                                                                    if b24
                                                                    then 
                                                                    if b25
                                                                    then None
                                                                    else 
                                                                    if b26
                                                                    then None
                                                                    else 
                                                                    if b27
                                                                    then None
                                                                    else 
                                                                    if b28
                                                                    then None
                                                                    else 
                                                                    if b29
                                                                    then 
                                                                    if b30
                                                                    then 
                                                                    if b31
                                                                    then None
                                                                    else 
                                                                    (match s5 with
                                                                    | [] ->
                                                                    (match l1 with
                                                                    | [] ->
                                                                    None
                                                                    | s6 :: l ->
                                                                    (match s6 with
                                                                    | SAtom v ->
                                                                    (match l with
                                                                    | [] ->
                                                                    None
                                                                    | s7 :: l2 ->
                                                                    (match s7 with
                                                                    | SAtom b ->
                                                                    (match l2 with
                                                                    | [] ->
                                                                    Some
                                                                    (SIota
                                                                    (v, b))
                                                                    | _ :: _ ->
                                                                    None)
                                                                    | SList _ ->
                                                                    None))
                                                                    | SList _ ->
                                                                    None))
                                                                    | _::_ ->
                                                                    None)
                                                                    else None
                                                                    else None
                                                                    else None)
                                                                    a2)
                                                                    else None
                                                                    else None
                                                                    else None
                                                                    else None)
                                                                    a1)
                                                                    else None
                                                                    else None
                                                                    else None
                                                                    else None
                                                                    else None
                                                               else if b9
                                                                    then 
                                                                    if b10
                                                                    then 
                                                                    if b11
                                                                    then None
                                                                    else 
                                                                    if b12
                                                                    then None
                                                                    else 
                                                                    if b13
                                                                    then 
                                                                    if b14
                                                                    then 
                                                                    if b15
                                                                    then None
                                                                    else 
                                                                    (match s3 with
                                                                    | [] ->
                                                                    (match l1 with
                                                                    | [] ->
                                                                    None
                                                                    | c :: l ->
                                                                    (match l with
                                                                    | [] ->
                                                                    None
                                                                    | b :: l2 ->
                                                                    (match l2 with
                                                                    | [] ->
                                                                    None
                                                                    | els :: l3 ->
                                                                    (match l3 with
                                                                    | [] ->
                                                                    (match 
                                                                    d_cexp c with
                                                                    | Some c' ->
                                                                    (match 
                                                                    dblock b with
                                                                    | Some b' ->
                                                                    (match 
                                                                    d_opt
                                                                    dblock els with
                                                                    | Some e' ->
                                                                    Some (SIf
                                                                    (c', b',
                                                                    e'))
                                                                    | None ->
                                                                    None)
                                                                    | None ->
                                                                    None)
                                                                    | None ->
                                                                    None)
                                                                    | _ :: _ ->
                                                                    None))))
                                                                    | _::_ ->
                                                                    None)
                                                                    else None
                                                                    else None
                                                                    else None
                                                                    else None)
                                                               a0)
                                                else None
                                           else None
                                 else None
                  else if b1
                       then if b2
                            then if b3
                                 then None
                                 else if b4
                                      then None
                                      else if b5
                                           then if b6
                                                then if b7
                                                     then None
                                                     else (match s2 with
                                                           | [] -> None
                                                           | a0::s3 ->
                                                             (* If this appears, you're using Ascii internals. Please don't *)
 (fun f c ->
  let n = Char.code c in
  let h i = (n land (1 lsl i)) <> 0 in
  f (h 0) (h 1) (h 2) (h 3) (h 4) (h 5) (h 6) (h 7))
                                                               (fun b8 b9 b10 b11 b12 b13 b14 b15 ->
                                                               if b8
                                                               then if b9
                                                                    then 
                                                                    if b10
                                                                    then 
                                                                    if b11
                                                                    then 
                                                                    if b12
                                                                    then None
                                                                    else 
                                                                    if b13
                                                                    then 
                                                                    if b14
                                                                    then 
                                                                    if b15
                                                                    then None
                                                                    else 
                                                                    (match s3 with
                                                                    | [] ->
                                                                    None
                                                                    | a1::s4 ->
                                                                    (* If this appears, you're using Ascii internals. Please don't *)
 (fun f c ->
  let n = Char.code c in
  let h i = (n land (1 lsl i)) <> 0 in
  f (h 0) (h 1) (h 2) (h 3) (h 4) (h 5) (h 6) (h 7))
                                                                    (fun b16 b17 b18 b19 b20 b21 b22 b23 ->
                                                                    if b16
                                                                    then None
                                                                    else 
                                                                    if b17
                                                                    then 
                                                                    if b18
                                                                    then None
                                                                    else 
                                                                    if b19
                                                                    then None
                                                                    else 
                                                                    if b20
                                                                    then 
                                                                    if b21
                                                                    then 
                                                                    if b22
                                                                    then 
                                                                    if b23
                                                                    then None
                                                                    else 
                                                                    (match s4 with
                                                                    | [] ->
                                                                    (match l1 with
                                                                    | [] ->
                                                                    None
                                                                    | s5 :: l ->
                                                                    (match s5 with
                                                                    | SAtom x ->
                                                                    (match l with
                                                                    | [] ->
                                                                    None
                                                                    | e :: l2 ->
                                                                    (match l2 with
                                                                    | [] ->
                                                                    None
                                                                    | b :: l3 ->
                                                                    (match l3 with
                                                                    | [] ->
                                                                    (match 
                                                                    d_cexp e with
                                                                    | Some e' ->
                                                                    (match 
                                                                    dblock b with
                                                                    | Some b' ->
                                                                    Some
                                                                    (SFor (x,
                                                                    e', b'))
                                                                    | None ->
                                                                    None)
                                                                    | None ->
                                                                    None)
                                                                    | _ :: _ ->
                                                                    None)))
                                                                    | SList _ ->
                                                                    None))
                                                                    | _::_ ->
                                                                    None)
                                                                    else None
                                                                    else None
                                                                    else None
                                                                    else None)
                                                                    a1)
                                                                    else None
                                                                    else None
                                                                    else None
                                                                    else None
                                                                    else 
                                                                    if b10
                                                                    then 
                                                                    if b11
                                                                    then None
                                                                    else 
                                                                    if b12
                                                                    then None
                                                                    else 
                                                                    if b13
                                                                    then 
                                                                    if b14
                                                                    then 
                                                                    if b15
                                                                    then None
                                                                    else 
                                                                    (match s3 with
                                                                    | [] ->
                                                                    None
                                                                    | a1::s4 ->
                                                                    (* If this appears, you're using Ascii internals. Please don't *)
 (fun f c ->
  let n = Char.code c in
  let h i = (n land (1 lsl i)) <> 0 in
  f (h 0) (h 1) (h 2) (h 3) (h 4) (h 5) (h 6) (h 7))
                                                                    (fun b b16 b17 b18 b19 b20 b21 b22 ->
                                                                    if b
                                                                    then None
                                                                    else 
                                                                    if b16
                                                                    then None
                                                                    else 
                                                                    if b17
                                                                    then 
                                                                    if b18
                                                                    then None
                                                                    else 
                                                                    if b19
                                                                    then 
                                                                    if b20
                                                                    then 
                                                                    if b21
                                                                    then 
                                                                    if b22
                                                                    then None
                                                                    else 
                                                                    (match s4 with
                                                                    | [] ->
                                                                    None
                                                                    | a2::s5 ->
                                                                    (* If this appears, you're using Ascii internals. Please don't *)
 (fun f c ->
  let n = Char.code c in
  let h i = (n land (1 lsl i)) <> 0 in
  f (h 0) (h 1) (h 2) (h 3) (h 4) (h 5) (h 6) (h 7))
                                                                    (fun b23 b24 b25 b26 b27 b28 b29 b30 ->
                                                                    if b23
                                                                    then 
                                                                    if b24
                                                                    then 
                                                                    if b25
                                                                    then None
                                                                    else 
                                                                    if b26
                                                                    then None
                                                                    else 
                                                                    if b27
                                                                    then None
                                                                    else 
                                                                    if b28
                                                                    then 
                                                                    if b29
                                                                    then 
                                                                    if b30
                                                                    then None
                                                                    else 
                                                                    (match s5 with
                                                                    | [] ->
                                                                    None
                                                                    | a3::s6 ->
                                                                    (* If this appears, you're using Ascii internals. Please don't *)
 (fun f c ->
  let n = Char.code c in
  let h i = (n land (1 lsl i)) <> 0 in
  f (h 0) (h 1) (h 2) (h 3) (h 4) (h 5) (h 6) (h 7))
                                                                    (fun b31 b32 b33 b34 b35 b36 b37 b38 ->
                                                                    if b31
                                                                    then None
                                                                    else 
                                                                    if b32
                                                                    then None
                                                                    else 
                                                                    if b33
                                                                    then None
                                                                    else 
                                                                    if b34
                                                                    then 
                                                                    if b35
                                                                    then None
                                                                    else 
                                                                    if b36
                                                                    then 
                                                                    if b37
                                                                    then 
                                                                    if b38
                                                                    then None
                                                                    else 
                                                                    (match s6 with
                                                                    | [] ->
                                                                    (match l1 with
                                                                    | [] ->
                                                                    None
                                                                    | s7 :: l ->
                                                                    (match s7 with
                                                                    | SAtom idiom ->
                                                                    (match l with
                                                                    | [] ->
                                                                    None
                                                                    | s8 :: l2 ->
                                                                    (match s8 with
                                                                    | SAtom target ->
                                                                    (match l2 with
                                                                    | [] ->
                                                                    None
                                                                    | s9 :: l3 ->
                                                                    (match s9 with
                                                                    | SAtom ct ->
                                                                    (match l3 with
                                                                    | [] ->
                                                                    None
                                                                    | s10 :: l4 ->
                                                                    (match s10 with
                                                                    | SAtom bank ->
                                                                    (match l4 with
                                                                    | [] ->
                                                                    None
                                                                    | lines :: l5 ->
                                                                    (match l5 with
                                                                    | [] ->
                                                                    option_map
                                                                    (fun x ->
                                                                    SFetch
                                                                    (idiom,
                                                                    target,
                                                                    ct, bank,
                                                                    x))
                                                                    (d_strs
                                                                    lines)
                                                                    | _ :: _ ->
                                                                    None))
                                                                    | SList _ ->
                                                                    None))
                                                                    | SList _ ->
                                                                    None))
                                                                    | SList _ ->
                                                                    None))
                                                                    | SList _ ->
                                                                    None))
                                                                    | _::_ ->
                                                                    None)
                                                                    else None
                                                                    else None
                                                                    else None)
                                                                    a3)
                                                                    else None
                                                                    else None
                                                                    else None
                                                                    else None)
                                                                    a2)
                                                                    else None
                                                                    else None
                                                                    else None
                                                                    else None)
                                                                    a1)
                                                                    else None
                                                                    else None
                                                                    else 
                                                                    if b11
                                                                    then 
                                                                    if b12
                                                                    then None
                                                                    else 
                                                                    if b13
                                                                    then 
                                                                    if b14
                                                                    then 
                                                                    if b15
                                                                    then None
                                                                    else 
                                                                    (match s3 with
                                                                    | [] ->
                                                                    None
                                                                    | a1::s4 ->
                                                                    (* If this appears, you're using Ascii internals. Please don't *)
 (fun f c ->
  let n = Char.code c in
  let h i = (n land (1 lsl i)) <> 0 in
  f (h 0) (h 1) (h 2) (h 3) (h 4) (h 5) (h 6) (h 7))
                                                                    (fun b b16 b17 b18 b19 b20 b21 b22 ->
                                                                    if b
                                                                    then None
                                                                    else 
                                                                    if b16
                                                                    then None
                                                                    else 
                                                                    if b17
                                                                    then 
                                                                    if b18
                                                                    then 
                                                                    if b19
                                                                    then None
                                                                    else 
                                                                    if b20
                                                                    then 
                                                                    if b21
                                                                    then 
                                                                    if b22
                                                                    then None
                                                                    else 
                                                                    (match s4 with
                                                                    | [] ->
                                                                    None
                                                                    | a2::s5 ->
                                                                    (* If this appears, you're using Ascii internals. Please don't *)
 (fun f c ->
  let n = Char.code c in
  let h i = (n land (1 lsl i)) <> 0 in
  f (h 0) (h 1) (h 2) (h 3) (h 4) (h 5) (h 6) (h 7))
                                                                    (fun b23 b24 b25 b26 b27 b28 b29 b30 ->
                                                                    if b23
                                                                    then None
                                                                    else 
                                                                    if b24
                                                                    then None
                                                                    else 
                                                                    if b25
                                                                    then 
                                                                    if b26
                                                                    then 
                                                                    if b27
                                                                    then None
                                                                    else 
                                                                    if b28
                                                                    then 
                                                                    if b29
                                                                    then 
                                                                    if b30
                                                                    then None
                                                                    else 
                                                                    (match s5 with
                                                                    | [] ->
                                                                    (match l1 with
                                                                    | [] ->
                                                                    None
                                                                    | s6 :: l2 ->
                                                                    (match s6 with
                                                                    | SAtom l ->
                                                                    (match l2 with
                                                                    | [] ->
                                                                    Some
                                                                    (SFill l)
                                                                    | _ :: _ ->
                                                                    None)
                                                                    | SList _ ->
                                                                    None))
                                                                    | _::_ ->
                                                                    None)
                                                                    else None
                                                                    else None
                                                                    else None
                                                                    else None)
                                                                    a2)
                                                                    else None
                                                                    else None
                                                                    else None
                                                                    else None)
                                                                    a1)
                                                                    else None
                                                                    else None
                                                                    else None
                                                               else None)
                                                               a0)
                                                else None
                                           else None
                            else if b3
                                 then None
                                 else if b4
                                      then None
                                      else if b5
                                           then if b6
                                                then if b7
                                                     then None
                                                     else (match s2 with
                                                           | [] -> None
                                                           | a0::s3 ->
                                                             (* If this appears, you're using Ascii internals. Please don't *)
 (fun f c ->
  let n = Char.code c in
  let h i = (n land (1 lsl i)) <> 0 in
  f (h 0) (h 1) (h 2) (h 3) (h 4) (h 5) (h 6) (h 7))
                                                               (fun b8 b9 b10 b11 b12 b13 b14 b15 ->
                                                               if b8
                                                               then None
                                                               else if b9
                                                                    then None
                                                                    else 
                                                                    if b10
                                                                    then 
                                                                    if b11
                                                                    then 
                                                                    if b12
                                                                    then None
                                                                    else 
                                                                    if b13
                                                                    then 
                                                                    if b14
                                                                    then 
                                                                    if b15
                                                                    then None
                                                                    else 
                                                                    (match s3 with
                                                                    | [] ->
                                                                    None
                                                                    | a1::s4 ->
                                                                    (* If this appears, you're using Ascii internals. Please don't *)
 (fun f c ->
  let n = Char.code c in
  let h i = (n land (1 lsl i)) <> 0 in
  f (h 0) (h 1) (h 2) (h 3) (h 4) (h 5) (h 6) (h 7))
                                                                    (fun b16 b17 b18 b19 b20 b21 b22 b23 ->
                                                                    if b16
                                                                    then 
                                                                    if b17
                                                                    then 
                                                                    if b18
                                                                    then 
                                                                    if b19
                                                                    then 
                                                                    if b20
                                                                    then None
                                                                    else 
                                                                    if b21
                                                                    then 
                                                                    if b22
                                                                    then 
                                                                    if b23
                                                                    then None
                                                                    else 
                                                                    (match s4 with
                                                                    | [] ->
                                                                    None
                                                                    | a2::s5 ->
                                                                    (* If this appears, you're using Ascii internals. Please don't *)
 (fun f c ->
  let n = Char.code c in
  let h i = (n land (1 lsl i)) <> 0 in
  f (h 0) (h 1) (h 2) (h 3) (h 4) (h 5) (h 6) (h 7))
                                                                    (fun b24 b25 b26 b27 b28 b29 b30 b31 ->
                                                                    if b24
                                                                    then 
                                                                    if b25
                                                                    then 
                                                                    if b26
                                                                    then None
                                                                    else 
                                                                    if b27
                                                                    then None
                                                                    else 
                                                                    if b28
                                                                    then None
                                                                    else 
                                                                    if b29
                                                                    then 
                                                                    if b30
                                                                    then 
                                                                    if b31
                                                                    then None
                                                                    else 
                                                                    (match s5 with
                                                                    | [] ->
                                                                    None
                                                                    | a3::s6 ->
                                                                    (* If this appears, you're using Ascii internals. Please don't *)
 (fun f c ->
  let n = Char.code c in
  let h i = (n land (1 lsl i)) <> 0 in
  f (h 0) (h 1) (h 2) (h 3) (h 4) (h 5) (h 6) (h 7))
                                                                    (fun b32 b33 b34 b35 b36 b37 b38 b39 ->
                                                                    if b32
                                                                    then 
                                                                    if b33
                                                                    then 
                                                                    if b34
                                                                    then None
                                                                    else 
                                                                    if b35
                                                                    then 
                                                                    if b36
                                                                    then None
                                                                    else 
                                                                    if b37
                                                                    then 
                                                                    if b38
                                                                    then 
                                                                    if b39
                                                                    then None
                                                                    else 
                                                                    (match s6 with
                                                                    | [] ->
                                                                    (match l1 with
                                                                    | [] ->
                                                                    None
                                                                    | b :: l ->
                                                                    (match l with
                                                                    | [] ->
                                                                    option_map
                                                                    (fun x ->
                                                                    SBlk x)
                                                                    (dblock b)
                                                                    | _ :: _ ->
                                                                    None))
                                                                    | _::_ ->
                                                                    None)
                                                                    else None
                                                                    else None
                                                                    else None
                                                                    else None
                                                                    else None)
                                                                    a3)
                                                                    else None
                                                                    else None
                                                                    else None
                                                                    else None)
                                                                    a2)
                                                                    else None
                                                                    else None
                                                                    else None
                                                                    else None
                                                                    else None
                                                                    else None)
                                                                    a1)
                                                                    else None
                                                                    else None
                                                                    else None
                                                                    else None)
                                                               a0)
                                                else None
                                           else None
                       else if b2
                            then if b3
                                 then if b4
                                      then None
                                      else if b5
                                           then if b6
                                                then if b7
                                                     then None
                                                     else (match s2 with
                                                           | [] -> None
                                                           | a0::s3 ->
                                                             (* If this appears, you're using Ascii internals. Please don't *)
 (fun f c ->
  let n = Char.code c in
  let h i = (n land (1 lsl i)) <> 0 in
  f (h 0) (h 1) (h 2) (h 3) (h 4) (h 5) (h 6) (h 7))
                                                               (fun b b8 b9 b10 b11 b12 b13 b14 ->
                                                               if b
                                                               then if b8
                                                                    then None
                                                                    else 
                                                                    if b9
                                                                    then None
                                                                    else 
                                                                    if b10
                                                                    then 
                                                                    if b11
                                                                    then None
                                                                    else 
                                                                    if b12
                                                                    then 
                                                                    if b13
                                                                    then 
                                                                    if b14
                                                                    then None
                                                                    else 
                                                                    (match s3 with
                                                                    | [] ->
                                                                    None
                                                                    | a1::s4 ->
                                                                    (* If this appears, you're using Ascii internals. Please don't *)
 (fun f c ->
  let n = Char.code c in
  let h i = (n land (1 lsl i)) <> 0 in
  f (h 0) (h 1) (h 2) (h 3) (h 4) (h 5) (h 6) (h 7))
                                                                    (fun b15 b16 b17 b18 b19 b20 b21 b22 ->
                                                                    if b15
                                                                    then None
                                                                    else 
                                                                    if b16
                                                                    then 
                                                                    if b17
                                                                    then 
                                                                    if b18
                                                                    then 
                                                                    if b19
                                                                    then None
                                                                    else 
                                                                    if b20
                                                                    then 
                                                                    if b21
                                                                    then 
                                                                    if b22
                                                                    then None
                                                                    else 
                                                                    (match s4 with
                                                                    | [] ->
                                                                    None
                                                                    | a2::s5 ->
                                                                    (* If this appears, you're using Ascii internals. Please don't *)
 (fun f c ->
  let n = Char.code c in
  let h i = (n land (1 lsl i)) <> 0 in
  f (h 0) (h 1) (h 2) (h 3) (h 4) (h 5) (h 6) (h 7))
                                                                    (fun b23 b24 b25 b26 b27 b28 b29 b30 ->
                                                                    if b23
                                                                    then 
                                                                    if b24
                                                                    then None
                                                                    else 
                                                                    if b25
                                                                    then 
                                                                    if b26
                                                                    then None
                                                                    else 
                                                                    if b27
                                                                    then None
                                                                    else 
                                                                    if b28
                                                                    then 
                                                                    if b29
                                                                    then 
                                                                    if b30
                                                                    then None
                                                                    else 
                                                                    (match s5 with
                                                                    | [] ->
                                                                    (match l1 with
                                                                    | [] ->
                                                                    None
                                                                    | s6 :: l2 ->
                                                                    (match s6 with
                                                                    | SAtom l ->
                                                                    (match l2 with
                                                                    | [] ->
                                                                    None
                                                                    | ids :: l3 ->
                                                                    (match l3 with
                                                                    | [] ->
                                                                    option_map
                                                                    (fun x ->
                                                                    SLine (l,
                                                                    x))
                                                                    (d_strs
                                                                    ids)
                                                                    | _ :: _ ->
                                                                    None))
                                                                    | SList _ ->
                                                                    None))
                                                                    | _::_ ->
                                                                    None)
                                                                    else None
                                                                    else None
                                                                    else None
                                                                    else None)
                                                                    a2)
                                                                    else None
                                                                    else None
                                                                    else None
                                                                    else None
                                                                    else None)
                                                                    a1)
                                                                    else None
                                                                    else None
                                                                    else None
                                                               else None)
                                                               a0)
                                                else None
                                           else None
                                 else if b4
                                      then if b5
                                           then if b6
                                                then if b7
                                                     then None
                                                     else (match s2 with
                                                           | [] -> None
                                                           | a0::s3 ->
                                                             (* If this appears, you're using Ascii internals. Please don't *)
 (fun f c ->
  let n = Char.code c in
  let h i = (n land (1 lsl i)) <> 0 in
  f (h 0) (h 1) (h 2) (h 3) (h 4) (h 5) (h 6) (h 7))
                                                               (fun b b8 b9 b10 b11 b12 b13 b14 ->
                                                               if b
                                                               then None
                                                               else if b8
                                                                    then None
                                                                    else 
                                                                    if b9
                                                                    then None
                                                                    else 
                                                                    if b10
                                                                    then 
                                                                    if b11
                                                                    then None
                                                                    else 
                                                                    if b12
                                                                    then 
                                                                    if b13
                                                                    then 
                                                                    if b14
                                                                    then None
                                                                    else 
                                                                    (match s3 with
                                                                    | [] ->
                                                                    None
                                                                    | a1::s4 ->
                                                                    (* If this appears, you're using Ascii internals. Please don't *)
 (fun f c ->
  let n = Char.code c in
  let h i = (n land (1 lsl i)) <> 0 in
  f (h 0) (h 1) (h 2) (h 3) (h 4) (h 5) (h 6) (h 7))
                                                                    (fun b15 b16 b17 b18 b19 b20 b21 b22 ->
                                                                    if b15
                                                                    then None
                                                                    else 
                                                                    if b16
                                                                    then 
                                                                    if b17
                                                                    then None
                                                                    else 
                                                                    if b18
                                                                    then None
                                                                    else 
                                                                    if b19
                                                                    then 
                                                                    if b20
                                                                    then 
                                                                    if b21
                                                                    then 
                                                                    if b22
                                                                    then None
                                                                    else 
                                                                    (match s4 with
                                                                    | [] ->
                                                                    None
                                                                    | a2::s5 ->
                                                                    (* If this appears, you're using Ascii internals. Please don't *)
 (fun f c ->
  let n = Char.code c in
  let h i = (n land (1 lsl i)) <> 0 in
  f (h 0) (h 1) (h 2) (h 3) (h 4) (h 5) (h 6) (h 7))
                                                                    (fun b23 b24 b25 b26 b27 b28 b29 b30 ->
                                                                    if b23
                                                                    then 
                                                                    if b24
                                                                    then 
                                                                    if b25
                                                                    then 
                                                                    if b26
                                                                    then 
                                                                    if b27
                                                                    then None
                                                                    else 
                                                                    if b28
                                                                    then 
                                                                    if b29
                                                                    then 
                                                                    if b30
                                                                    then None
                                                                    else 
                                                                    (match s5 with
                                                                    | [] ->
                                                                    None
                                                                    | a3::s6 ->
                                                                    (* If this appears, you're using Ascii internals. Please don't *)
 (fun f c ->
  let n = Char.code c in
  let h i = (n land (1 lsl i)) <> 0 in
  f (h 0) (h 1) (h 2) (h 3) (h 4) (h 5) (h 6) (h 7))
                                                                    (fun b31 b32 b33 b34 b35 b36 b37 b38 ->
                                                                    if b31
                                                                    then 
                                                                    if b32
                                                                    then 
                                                                    if b33
                                                                    then 
                                                                    if b34
                                                                    then None
                                                                    else 
                                                                    if b35
                                                                    then 
                                                                    if b36
                                                                    then 
                                                                    if b37
                                                                    then 
                                                                    if b38
                                                                    then None
                                                                    else 
                                                                    (match s6 with
                                                                    | [] ->
                                                                    (match l1 with
                                                                    | [] ->
                                                                    None
                                                                    | s7 :: l2 ->
                                                                    (match s7 with
                                                                    | SAtom l ->
                                                                    (match l2 with
                                                                    | [] ->
                                                                    Some
                                                                    (SThrow l)
                                                                    | _ :: _ ->
                                                                    None)
                                                                    | SList _ ->
                                                                    None))
                                                                    | _::_ ->
                                                                    None)
                                                                    else None
                                                                    else None
                                                                    else None
                                                                    else None
                                                                    else None
                                                                    else None)
                                                                    a3)
                                                                    else None
                                                                    else None
                                                                    else None
                                                                    else None
                                                                    else None
                                                                    else None)
                                                                    a2)
                                                                    else None
                                                                    else None
                                                                    else None
                                                                    else None)
                                                                    a1)
                                                                    else None
                                                                    else None
                                                                    else None)
                                                               a0)
                                                else None
                                           else None
                                      else None
                            else if b3
                                 then None
                                 else if b4
                                      then if b5
                                           then if b6
                                                then if b7
                                                     then None
                                                     else (match s2 with
                                                           | [] -> None
                                                           | a0::s3 ->
                                                             (* If this appears, you're using Ascii internals. Please don't *)
 (fun f c ->
  let n = Char.code c in
  let h i = (n land (1 lsl i)) <> 0 in
  f (h 0) (h 1) (h 2) (h 3) (h 4) (h 5) (h 6) (h 7))
                                                               (fun b b8 b9 b10 b11 b12 b13 b14 ->
                                                               if b
                                                               then if b8
                                                                    then None
                                                                    else 
                                                                    if b9
                                                                    then 
                                                                    if b10
                                                                    then None
                                                                    else 
                                                                    if b11
                                                                    then 
                                                                    if b12
                                                                    then 
                                                                    if b13
                                                                    then 
                                                                    if b14
                                                                    then None
                                                                    else 
                                                                    (match s3 with
                                                                    | [] ->
                                                                    None
                                                                    | a1::s4 ->
                                                                    (* If this appears, you're using Ascii internals. Please don't *)
 (fun f c ->
  let n = Char.code c in
  let h i = (n land (1 lsl i)) <> 0 in
  f (h 0) (h 1) (h 2) (h 3) (h 4) (h 5) (h 6) (h 7))
                                                                    (fun b15 b16 b17 b18 b19 b20 b21 b22 ->
                                                                    if b15
                                                                    then 
                                                                    if b16
                                                                    then 
                                                                    if b17
                                                                    then None
                                                                    else 
                                                                    if b18
                                                                    then None
                                                                    else 
                                                                    if b19
                                                                    then 
                                                                    if b20
                                                                    then 
                                                                    if b21
                                                                    then 
                                                                    if b22
                                                                    then None
                                                                    else 
                                                                    (match s4 with
                                                                    | [] ->
                                                                    None
                                                                    | a2::s5 ->
                                                                    (* If this appears, you're using Ascii internals. Please don't *)
 (fun f c ->
  let n = Char.code c in
  let h i = (n land (1 lsl i)) <> 0 in
  f (h 0) (h 1) (h 2) (h 3) (h 4) (h 5) (h 6) (h 7))
                                                                    (fun b23 b24 b25 b26 b27 b28 b29 b30 ->
                                                                    if b23
                                                                    then None
                                                                    else 
                                                                    if b24
                                                                    then None
                                                                    else 
                                                                    if b25
                                                                    then None
                                                                    else 
                                                                    if b26
                                                                    then 
                                                                    if b27
                                                                    then None
                                                                    else 
                                                                    if b28
                                                                    then 
                                                                    if b29
                                                                    then 
                                                                    if b30
                                                                    then None
                                                                    else 
                                                                    (match s5 with
                                                                    | [] ->
                                                                    (match l1 with
                                                                    | [] ->
                                                                    None
                                                                    | s6 :: l ->
                                                                    (match s6 with
                                                                    | SAtom x ->
                                                                    (match l with
                                                                    | [] ->
                                                                    None
                                                                    | c :: l2 ->
                                                                    (match l2 with
                                                                    | [] ->
                                                                    None
                                                                    | e :: l3 ->
                                                                    (match l3 with
                                                                    | [] ->
                                                                    (match 
                                                                    d_opt
                                                                    d_str c with
                                                                    | Some c' ->
                                                                    (match 
                                                                    d_cexp e with
                                                                    | Some e' ->
                                                                    Some
                                                                    (SPush
                                                                    (x, c',
                                                                    e'))
                                                                    | None ->
                                                                    None)
                                                                    | None ->
                                                                    None)
                                                                    | _ :: _ ->
                                                                    None)))
                                                                    | SList _ ->
                                                                    None))
                                                                    | _::_ ->
                                                                    None)
                                                                    else None
                                                                    else None
                                                                    else None)
                                                                    a2)
                                                                    else None
                                                                    else None
                                                                    else None
                                                                    else None
                                                                    else None)
                                                                    a1)
                                                                    else None
                                                                    else None
                                                                    else None
                                                                    else None
                                                               else None)
                                                               a0)
                                                else None
                                           else None
                                      else None)
                  a)
           | SList _ -> None)))

(** val d_block : sexp -> block option **)

let d_block s =
  match d_stmt_fuel (S (S (sexp_depth s))) (SList ((SAtom
          ('b'::('l'::('o'::('c'::('k'::[])))))) :: (s :: []))) with
  | Some s0 -> (match s0 with
                | SBlk b -> Some b
                | _ -> None)
  | None -> None

(** val d_member : sexp -> member option **)

let d_member = function
| SAtom _ -> None
| SList l ->
  (match l with
   | [] -> None
   | s0 :: l0 ->
     (match s0 with
      | SAtom t ->
        (match l0 with
         | [] -> None
         | s1 :: l1 ->
           (match s1 with
            | SAtom n0 ->
              (match l1 with
               | [] -> Some { m_type = t; m_name = n0 }
               | _ :: _ -> None)
            | SList _ -> None))
      | SList _ -> None))

(** val d_branch : sexp -> branch option **)

let d_branch = function
| SAtom _ -> None
| SList l ->
  (match l with
   | [] -> None
   | s0 :: l0 ->
     (match s0 with
      | SAtom n0 ->
        (match l0 with
         | [] -> None
         | s1 :: l1 ->
           (match s1 with
            | SAtom v ->
              (match l1 with
               | [] -> Some { br_name = n0; br_var = v }
               | _ :: _ -> None)
            | SList _ -> None))
      | SList _ -> None))

(** val d_program : sexp -> program option **)

let d_program = function
| SAtom _ -> None
| SList l ->
  (match l with
   | [] -> None
   | s0 :: l0 ->
     (match s0 with
      | SAtom _ -> None
      | SList ms ->
        (match l0 with
         | [] -> None
         | s1 :: l1 ->
           (match s1 with
            | SAtom tree ->
              (match l1 with
               | [] -> None
               | s2 :: l2 ->
                 (match s2 with
                  | SAtom _ -> None
                  | SList brs ->
                    (match l2 with
                     | [] -> None
                     | extra :: l3 ->
                       (match l3 with
                        | [] -> None
                        | body :: l4 ->
                          (match l4 with
                           | [] ->
                             (match d_list d_member ms with
                              | Some ms' ->
                                (match d_list d_branch brs with
                                 | Some brs' ->
                                   (match d_strs extra with
                                    | Some ex' ->
                                      (match d_block body with
                                       | Some b' ->
                                         Some { p_members = ms'; p_tree =
                                           tree; p_branches = brs';
                                           p_book_extra = ex'; p_body = b' }
                                       | None -> None)
                                    | None -> None)
                                 | None -> None)
                              | None -> None)
                           | _ :: _ -> None)))))
            | SList _ -> None))))

(** val run_print : sexp -> sexp **)

let run_print s =
  match d_block s with
  | Some b -> s_tag ('o'::('k'::[])) ((s_strs (print_block b)) :: [])
  | None -> bad_input

type value =
| VInt of z
| VDbl of q
| VBool of bool
| VObj of nat
| VNull
| VVec of value list
| VStr of char list
| VSym of char list * value list
| VUninit

type fault =
| FThrow
| FOutOfRange
| FNullDeref
| FDivZero
| FRetrieve

type stuck =
| KUnbound of char list
| KUninit of char list
| KType of char list
| KOpaque of char list

type 'a res =
| ROk of 'a
| RFault of fault
| RStuck of stuck

(** val rbind : 'a1 res -> ('a1 -> 'a2 res) -> 'a2 res **)

let rbind r f =
  match r with
  | ROk a -> f a
  | RFault x -> RFault x
  | RStuck k -> RStuck k

type event = { ev_colls : ((char list * char list) * value) list;
               ev_meths : ((nat * char list) * value) list }

(** val assoc_ss :
    (char list * char list) -> ((char list * char list) * value) list ->
    value option **)

let rec assoc_ss k = function
| [] -> None
| p :: r ->
  let (p0, v) = p in
  let (a, b) = p0 in
  if (&&) (eqb0 a (fst k)) (eqb0 b (snd k)) then Some v else assoc_ss k r

(** val assoc_ns :
    (nat * char list) -> ((nat * char list) * value) list -> value option **)

let rec assoc_ns k = function
| [] -> None
| p :: r ->
  let (p0, v) = p in
  let (a, b) = p0 in
  if (&&) (Nat.eqb a (fst k)) (eqb0 b (snd k)) then Some v else assoc_ns k r

type binding = char list * (char list * value)

type frame = binding list

type state = { frames : frame list; members : frame; rows : value list list }

(** val frame_get : char list -> frame -> (char list * value) option **)

let rec frame_get x = function
| [] -> None
| b :: r -> let (y, tv) = b in if eqb0 x y then Some tv else frame_get x r

(** val frame_set : char list -> value -> frame -> frame option **)

let rec frame_set x v = function
| [] -> None
| b :: r ->
  let (y, p) = b in
  let (t, w) = p in
  if eqb0 x y
  then Some ((y, (t, v)) :: r)
  else (match frame_set x v r with
        | Some r' -> Some ((y, (t, w)) :: r')
        | None -> None)

(** val frames_get : char list -> frame list -> (char list * value) option **)

let rec frames_get x = function
| [] -> None
| f :: r ->
  (match frame_get x f with
   | Some tv -> Some tv
   | None -> frames_get x r)

(** val frames_set : char list -> value -> frame list -> frame list option **)

let rec frames_set x v = function
| [] -> None
| f :: r ->
  (match frame_set x v f with
   | Some f' -> Some (f' :: r)
   | None ->
     (match frames_set x v r with
      | Some r' -> Some (f :: r')
      | None -> None))

(** val lookup : char list -> state -> (char list * value) option **)

let lookup x st =
  match frames_get x st.frames with
  | Some tv -> Some tv
  | None -> frame_get x st.members

(** val assign : char list -> value -> state -> state option **)

let assign x v st =
  match frames_set x v st.frames with
  | Some fs -> Some { frames = fs; members = st.members; rows = st.rows }
  | None ->
    (match frame_set x v st.members with
     | Some m -> Some { frames = st.frames; members = m; rows = st.rows }
     | None -> None)

(** val qz : z -> q **)

let qz =
  inject_Z

(** val qtrunc : q -> z **)

let qtrunc q0 =
  Z.quot q0.qnum (Zpos q0.qden)

(** val q_is0 : q -> bool **)

let q_is0 q0 =
  Z.eqb q0.qnum Z0

(** val qlt : q -> q -> bool **)

let qlt a b =
  (&&) (qle_bool a b) (negb (qeq_bool a b))

(** val prefix : char list -> char list -> bool **)

let rec prefix p s =
  match p with
  | [] -> true
  | a::p' ->
    (match s with
     | [] -> false
     | b::s' -> (&&) ((=) a b) (prefix p' s'))

(** val is_vector_type : char list -> bool **)

let is_vector_type t =
  prefix
    ('s'::('t'::('d'::(':'::(':'::('v'::('e'::('c'::('t'::('o'::('r'::('<'::[]))))))))))))
    t

(** val drop_last : char list -> char list **)

let rec drop_last = function
| [] -> []
| c::r -> (match r with
           | [] -> []
           | _::_ -> c::(drop_last r))

(** val vector_elem_type : char list -> char list **)

let vector_elem_type t =
  drop_last
    (substring (S (S (S (S (S (S (S (S (S (S (S (S O))))))))))))
      (sub (length0 t) (S (S (S (S (S (S (S (S (S (S (S (S O))))))))))))) t)

(** val conv : char list -> value -> value **)

let conv t v =
  if eqb0 t ('i'::('n'::('t'::[])))
  then (match v with
        | VDbl q0 -> VInt (qtrunc q0)
        | VBool b -> VInt (if b then Zpos XH else Z0)
        | _ -> v)
  else if (||) (eqb0 t ('d'::('o'::('u'::('b'::('l'::('e'::[])))))))
            (eqb0 t ('f'::('l'::('o'::('a'::('t'::[]))))))
       then (match v with
             | VInt z0 -> VDbl (qz z0)
             | VBool b -> VDbl (qz (if b then Zpos XH else Z0))
             | _ -> v)
       else if eqb0 t ('b'::('o'::('o'::('l'::[]))))
            then (match v with
                  | VInt z0 -> VBool (negb (Z.eqb z0 Z0))
                  | VDbl q0 -> VBool (negb (q_is0 q0))
                  | _ -> v)
            else v

(** val num_of : value -> (z, q) sum option **)

let num_of = function
| VInt z0 -> Some (Inl z0)
| VDbl q0 -> Some (Inr q0)
| VBool b -> Some (Inl (if b then Zpos XH else Z0))
| _ -> None

(** val to_q : (z, q) sum -> q **)

let to_q = function
| Inl z0 -> qz z0
| Inr q0 -> q0

(** val is_sym : value -> bool **)

let is_sym = function
| VSym (_, _) -> true
| _ -> false

(** val arith : char list -> value -> value -> value res **)

let arith op a b =
  if (||) (is_sym a) (is_sym b)
  then ROk (VSym (op, (a :: (b :: []))))
  else (match num_of a with
        | Some x ->
          (match x with
           | Inl x0 ->
             (match num_of b with
              | Some y ->
                (match y with
                 | Inl y0 ->
                   if eqb0 op ('+'::[])
                   then ROk (VInt (Z.add x0 y0))
                   else if eqb0 op ('-'::[])
                        then ROk (VInt (Z.sub x0 y0))
                        else if eqb0 op ('*'::[])
                             then ROk (VInt (Z.mul x0 y0))
                             else if eqb0 op ('/'::[])
                                  then if Z.eqb y0 Z0
                                       then RFault FDivZero
                                       else ROk (VInt (Z.quot x0 y0))
                                  else if eqb0 op ('%'::[])
                                       then if Z.eqb y0 Z0
                                            then RFault FDivZero
                                            else ROk (VInt (Z.rem x0 y0))
                                       else if eqb0 op ('<'::[])
                                            then ROk (VBool (Z.ltb x0 y0))
                                            else if eqb0 op ('<'::('='::[]))
                                                 then ROk (VBool
                                                        (Z.leb x0 y0))
                                                 else if eqb0 op ('>'::[])
                                                      then ROk (VBool
                                                             (Z.ltb y0 x0))
                                                      else if eqb0 op
                                                                ('>'::('='::[]))
                                                           then ROk (VBool
                                                                  (Z.leb y0
                                                                    x0))
                                                           else if eqb0 op
                                                                    ('='::('='::[]))
                                                                then 
                                                                  ROk (VBool
                                                                    (Z.eqb x0
                                                                    y0))
                                                                else 
                                                                  if 
                                                                    eqb0 op
                                                                    ('!'::('='::[]))
                                                                  then 
                                                                    ROk
                                                                    (VBool
                                                                    (negb
                                                                    (Z.eqb x0
                                                                    y0)))
                                                                  else 
                                                                    RStuck
                                                                    (KType
                                                                    (append
                                                                    ('o'::('p'::('e'::('r'::('a'::('t'::('o'::('r'::(' '::[])))))))))
                                                                    op))
                 | Inr _ ->
                   let p = to_q x in
                   let q0 = to_q y in
                   if eqb0 op ('+'::[])
                   then ROk (VDbl (qred (qplus p q0)))
                   else if eqb0 op ('-'::[])
                        then ROk (VDbl (qred (qminus p q0)))
                        else if eqb0 op ('*'::[])
                             then ROk (VDbl (qred (qmult p q0)))
                             else if eqb0 op ('/'::[])
                                  then if q_is0 q0
                                       then RFault FDivZero
                                       else ROk (VDbl (qred (qdiv p q0)))
                                  else if eqb0 op ('%'::[])
                                       then RStuck (KType
                                              ('%'::(' '::('w'::('i'::('t'::('h'::(' '::('a'::(' '::('f'::('l'::('o'::('a'::('t'::('i'::('n'::('g'::(' '::('o'::('p'::('e'::('r'::('a'::('n'::('d'::(' '::('i'::('s'::(' '::('i'::('l'::('l'::('-'::('f'::('o'::('r'::('m'::('e'::('d'::(' '::('C'::('+'::('+'::[]))))))))))))))))))))))))))))))))))))))))))))
                                       else if eqb0 op ('<'::[])
                                            then ROk (VBool (qlt p q0))
                                            else if eqb0 op ('<'::('='::[]))
                                                 then ROk (VBool
                                                        (qle_bool p q0))
                                                 else if eqb0 op ('>'::[])
                                                      then ROk (VBool
                                                             (qlt q0 p))
                                                      else if eqb0 op
                                                                ('>'::('='::[]))
                                                           then ROk (VBool
                                                                  (qle_bool
                                                                    q0 p))
                                                           else if eqb0 op
                                                                    ('='::('='::[]))
                                                                then 
                                                                  ROk (VBool
                                                                    (qeq_bool
                                                                    p q0))
                                                                else 
                                                                  if 
                                                                    eqb0 op
                                                                    ('!'::('='::[]))
                                                                  then 
                                                                    ROk
                                                                    (VBool
                                                                    (negb
                                                                    (qeq_bool
                                                                    p q0)))
                                                                  else 
                                                                    RStuck
                                                                    (KType
                                                                    (append
                                                                    ('o'::('p'::('e'::('r'::('a'::('t'::('o'::('r'::(' '::[])))))))))
                                                                    op)))
              | None ->
                RStuck (KType
                  (append
                    ('o'::('p'::('e'::('r'::('a'::('n'::('d'::('s'::(' '::('o'::('f'::(' '::[]))))))))))))
                    op)))
           | Inr _ ->
             (match num_of b with
              | Some y ->
                let p = to_q x in
                let q0 = to_q y in
                if eqb0 op ('+'::[])
                then ROk (VDbl (qred (qplus p q0)))
                else if eqb0 op ('-'::[])
                     then ROk (VDbl (qred (qminus p q0)))
                     else if eqb0 op ('*'::[])
                          then ROk (VDbl (qred (qmult p q0)))
                          else if eqb0 op ('/'::[])
                               then if q_is0 q0
                                    then RFault FDivZero
                                    else ROk (VDbl (qred (qdiv p q0)))
                               else if eqb0 op ('%'::[])
                                    then RStuck (KType
                                           ('%'::(' '::('w'::('i'::('t'::('h'::(' '::('a'::(' '::('f'::('l'::('o'::('a'::('t'::('i'::('n'::('g'::(' '::('o'::('p'::('e'::('r'::('a'::('n'::('d'::(' '::('i'::('s'::(' '::('i'::('l'::('l'::('-'::('f'::('o'::('r'::('m'::('e'::('d'::(' '::('C'::('+'::('+'::[]))))))))))))))))))))))))))))))))))))))))))))
                                    else if eqb0 op ('<'::[])
                                         then ROk (VBool (qlt p q0))
                                         else if eqb0 op ('<'::('='::[]))
                                              then ROk (VBool (qle_bool p q0))
                                              else if eqb0 op ('>'::[])
                                                   then ROk (VBool (qlt q0 p))
                                                   else if eqb0 op
                                                             ('>'::('='::[]))
                                                        then ROk (VBool
                                                               (qle_bool q0 p))
                                                        else if eqb0 op
                                                                  ('='::('='::[]))
                                                             then ROk (VBool
                                                                    (qeq_bool
                                                                    p q0))
                                                             else if 
                                                                    eqb0 op
                                                                    ('!'::('='::[]))
                                                                  then 
                                                                    ROk
                                                                    (VBool
                                                                    (negb
                                                                    (qeq_bool
                                                                    p q0)))
                                                                  else 
                                                                    RStuck
                                                                    (KType
                                                                    (append
                                                                    ('o'::('p'::('e'::('r'::('a'::('t'::('o'::('r'::(' '::[])))))))))
                                                                    op))
              | None ->
                RStuck (KType
                  (append
                    ('o'::('p'::('e'::('r'::('a'::('n'::('d'::('s'::(' '::('o'::('f'::(' '::[]))))))))))))
                    op))))
        | None ->
          RStuck (KType
            (append
              ('o'::('p'::('e'::('r'::('a'::('n'::('d'::('s'::(' '::('o'::('f'::(' '::[]))))))))))))
              op)))

(** val unary : char list -> value -> value res **)

let unary op a =
  if is_sym a
  then ROk (VSym ((append ('u'::[]) op), (a :: [])))
  else if eqb0 op ('!'::[])
       then (match a with
             | VInt z0 -> ROk (VBool (Z.eqb z0 Z0))
             | VDbl q0 -> ROk (VBool (q_is0 q0))
             | VBool b -> ROk (VBool (negb b))
             | _ ->
               RStuck (KType
                 ('o'::('p'::('e'::('r'::('a'::('n'::('d'::(' '::('o'::('f'::(' '::('!'::[]))))))))))))))
       else (match num_of a with
             | Some s ->
               (match s with
                | Inl z0 ->
                  if eqb0 op ('-'::[])
                  then ROk (VInt (Z.opp z0))
                  else if eqb0 op ('+'::[])
                       then ROk (VInt z0)
                       else RStuck (KType
                              (append
                                ('u'::('n'::('a'::('r'::('y'::(' '::[]))))))
                                op))
                | Inr q0 ->
                  if eqb0 op ('-'::[])
                  then ROk (VDbl (qred (qopp q0)))
                  else if eqb0 op ('+'::[])
                       then ROk (VDbl q0)
                       else RStuck (KType
                              (append
                                ('u'::('n'::('a'::('r'::('y'::(' '::[]))))))
                                op)))
             | None ->
               RStuck (KType
                 (append
                   ('o'::('p'::('e'::('r'::('a'::('n'::('d'::(' '::('o'::('f'::(' '::('u'::('n'::('a'::('r'::('y'::(' '::[])))))))))))))))))
                   op)))

(** val truth : value -> bool res **)

let truth = function
| VInt z0 -> ROk (negb (Z.eqb z0 Z0))
| VDbl q0 -> ROk (negb (q_is0 q0))
| VBool b -> ROk b
| VSym (_, _) ->
  RStuck (KOpaque
    ('c'::('o'::('n'::('d'::('i'::('t'::('i'::('o'::('n'::(' '::('d'::('e'::('p'::('e'::('n'::('d'::('s'::(' '::('o'::('n'::(' '::('a'::('n'::(' '::('u'::('n'::('i'::('n'::('t'::('e'::('r'::('p'::('r'::('e'::('t'::('e'::('d'::(' '::('f'::('u'::('n'::('c'::('t'::('i'::('o'::('n'::[])))))))))))))))))))))))))))))))))))))))))))))))
| _ ->
  RStuck (KType
    ('c'::('o'::('n'::('d'::('i'::('t'::('i'::('o'::('n'::[]))))))))))

(** val math_arg : value -> value **)

let math_arg v = match v with
| VInt z0 -> VDbl (qz z0)
| VBool b -> VDbl (qz (if b then Zpos XH else Z0))
| _ -> v

(** val call_method :
    event -> value -> char list -> value list -> value res **)

let call_method ev o m args =
  match o with
  | VObj id ->
    (match args with
     | [] ->
       (match assoc_ns (id, m) ev.ev_meths with
        | Some v -> ROk v
        | None -> ROk (VSym (m, ((VObj id) :: []))))
     | _ :: _ -> ROk (VSym (m, ((VObj id) :: args))))
  | VNull -> RFault FNullDeref
  | VVec l ->
    if eqb0 m ('a'::('t'::[]))
    then (match args with
          | [] ->
            RStuck (KType
              ('a'::('r'::('g'::('u'::('m'::('e'::('n'::('t'::(' '::('o'::('f'::(' '::('a'::('t'::('('::(')'::[])))))))))))))))))
          | v :: l0 ->
            (match v with
             | VInt i ->
               (match l0 with
                | [] ->
                  if Z.ltb i Z0
                  then RFault FOutOfRange
                  else (match nth_error l (Z.to_nat i) with
                        | Some v0 -> ROk v0
                        | None -> RFault FOutOfRange)
                | _ :: _ ->
                  RStuck (KType
                    ('a'::('r'::('g'::('u'::('m'::('e'::('n'::('t'::(' '::('o'::('f'::(' '::('a'::('t'::('('::(')'::[]))))))))))))))))))
             | _ ->
               RStuck (KType
                 ('a'::('r'::('g'::('u'::('m'::('e'::('n'::('t'::(' '::('o'::('f'::(' '::('a'::('t'::('('::(')'::[])))))))))))))))))))
    else if eqb0 m ('s'::('i'::('z'::('e'::[]))))
         then ROk (VInt (Z.of_nat (length l)))
         else RStuck (KType
                (append ('m'::('e'::('t'::('h'::('o'::('d'::(' '::[])))))))
                  (append m
                    (' '::('o'::('f'::(' '::('a'::(' '::('v'::('e'::('c'::('t'::('o'::('r'::[])))))))))))))))
  | VSym (f, a) -> ROk (VSym (m, ((VSym (f, a)) :: args)))
  | _ ->
    RStuck (KType
      (append
        ('m'::('e'::('m'::('b'::('e'::('r'::(' '::('a'::('c'::('c'::('e'::('s'::('s'::(' '::('.'::[])))))))))))))))
        (append m
          (' '::('o'::('n'::(' '::('a'::(' '::('n'::('o'::('n'::('-'::('o'::('b'::('j'::('e'::('c'::('t'::[])))))))))))))))))))

(** val eval : event -> state -> cexp -> value res **)

let rec eval ev st = function
| CVar x ->
  (match lookup x st with
   | Some p ->
     let (_, v) = p in
     (match v with
      | VUninit -> RStuck (KUninit x)
      | _ -> ROk v)
   | None -> RStuck (KUnbound x))
| CInt z0 -> ROk (VInt z0)
| CDbl (_, n0, d) -> ROk (VDbl (qred { qnum = n0; qden = d }))
| CBool b -> ROk (VBool b)
| CStr s -> ROk (VStr s)
| CBin (op, a, b) ->
  rbind (eval ev st a) (fun x -> rbind (eval ev st b) (fun y -> arith op x y))
| CUn (op, a) -> rbind (eval ev st a) (fun x -> unary op x)
| CNot a -> rbind (eval ev st a) (fun x -> unary ('!'::[]) x)
| CDeref a ->
  rbind (eval ev st a) (fun x ->
    match x with
    | VNull -> RFault FNullDeref
    | _ -> ROk x)
| CCall (f, args) ->
  rbind (eval_args ev st args) (fun vs -> ROk (VSym (f, (map math_arg vs))))
| CMeth (o, _, m, args) ->
  rbind (eval ev st o) (fun x ->
    rbind (eval_args ev st args) (fun vs -> call_method ev x m vs))
| CField (o, _, m) -> rbind (eval ev st o) (fun x -> call_method ev x m [])
| CCast (t, a) -> rbind (eval ev st a) (fun x -> ROk (conv t x))
| CSubI (a, b) ->
  rbind (eval ev st a) (fun x ->
    rbind (eval ev st b) (fun y -> arith ('-'::[]) x y))
| COpaque (t, _) -> RStuck (KOpaque t)

(** val eval_args : event -> state -> cexps -> value list res **)

and eval_args ev st = function
| CNil -> ROk []
| CCons (e, r) ->
  rbind (eval ev st e) (fun v ->
    rbind (eval_args ev st r) (fun vs -> ROk (v :: vs)))

(** val default_value : char list -> value **)

let default_value t =
  if is_vector_type t then VVec [] else VUninit

(** val init_value : char list -> value -> value **)

let init_value t v =
  if is_vector_type t
  then (match v with
        | VInt n0 ->
          VVec (repeat (conv (vector_elem_type t) (VInt Z0)) (Z.to_nat n0))
        | _ -> v)
  else conv t v

(** val pop_frame : state -> state **)

let pop_frame st =
  { frames = (tl st.frames); members = st.members; rows = st.rows }

(** val declare : char list -> char list -> value -> state -> state **)

let declare x t v st =
  match st.frames with
  | [] ->
    { frames = (((x, (t, v)) :: []) :: []); members = st.members; rows =
      st.rows }
  | f :: r ->
    { frames = ((app f ((x, (t, v)) :: [])) :: r); members = st.members;
      rows = st.rows }

(** val run_decls : event -> decl list -> state -> state res **)

let rec run_decls ev ds st =
  match ds with
  | [] -> ROk st
  | d :: r ->
    (match d.d_init with
     | Some e ->
       rbind (eval ev st e) (fun v ->
         run_decls ev r (declare d.d_name d.d_type (init_value d.d_type v) st))
     | None ->
       run_decls ev r (declare d.d_name d.d_type (default_value d.d_type) st))

(** val fill_row : branch list -> state -> value list **)

let fill_row brs st =
  map (fun b ->
    match frame_get b.br_var st.members with
    | Some p -> let (_, v) = p in v
    | None -> VUninit) brs

(** val iota : nat -> z -> value list **)

let rec iota n0 start =
  match n0 with
  | O -> []
  | S k -> (VInt start) :: (iota k (Z.add start (Zpos XH)))

(** val exec_block :
    branch list -> event -> block -> frame -> state -> state res **)

let exec_block brs ev =
  let rec exec_stmt s st =
    match s with
    | SSet (x, c, e) ->
      rbind (eval ev st e) (fun v ->
        match lookup x st with
        | Some p ->
          let (t, _) = p in
          let v1 = match c with
                   | Some ct -> conv ct v
                   | None -> v in
          (match assign x (conv t v1) st with
           | Some st' -> ROk st'
           | None -> RStuck (KUnbound x))
        | None -> RStuck (KUnbound x))
    | SPush (x, c, e) ->
      rbind (eval ev st e) (fun v ->
        match lookup x st with
        | Some p ->
          let (t, v0) = p in
          (match v0 with
           | VVec l ->
             let v1 = match c with
                      | Some ct -> conv ct v
                      | None -> v in
             (match assign x (VVec
                      (app l ((conv (vector_elem_type t) v1) :: []))) st with
              | Some st' -> ROk st'
              | None -> RStuck (KUnbound x))
           | _ ->
             RStuck (KType
               (append
                 ('p'::('u'::('s'::('h'::('_'::('b'::('a'::('c'::('k'::(' '::('o'::('n'::(' '::('n'::('o'::('n'::('-'::('v'::('e'::('c'::('t'::('o'::('r'::(' '::[]))))))))))))))))))))))))
                 x)))
        | None -> RStuck (KUnbound x))
    | SClear x ->
      (match lookup x st with
       | Some p ->
         let (_, v) = p in
         (match v with
          | VVec _ ->
            (match assign x (VVec []) st with
             | Some st' -> ROk st'
             | None -> RStuck (KUnbound x))
          | _ ->
            RStuck (KType
              (append
                ('c'::('l'::('e'::('a'::('r'::(' '::('o'::('n'::(' '::('n'::('o'::('n'::('-'::('v'::('e'::('c'::('t'::('o'::('r'::(' '::[]))))))))))))))))))))
                x)))
       | None -> RStuck (KUnbound x))
    | SFill _ ->
      ROk { frames = st.frames; members = st.members; rows =
        (app st.rows ((fill_row brs st) :: [])) }
    | SThrow _ -> RFault FThrow
    | SFetch (_, target, ct, bank, _) ->
      (match assoc_ss (ct, bank) ev.ev_colls with
       | Some v ->
         (match assign target v st with
          | Some st' -> ROk st'
          | None -> RStuck (KUnbound target))
       | None -> RFault FRetrieve)
    | SIota (v, b) ->
      (match lookup v st with
       | Some p ->
         let (_, v0) = p in
         (match v0 with
          | VVec l ->
            (match lookup b st with
             | Some p0 ->
               let (_, v1) = p0 in
               (match v1 with
                | VInt z0 ->
                  (match assign v (VVec (iota (length l) z0)) st with
                   | Some st' -> ROk st'
                   | None -> RStuck (KUnbound v))
                | VUninit -> RStuck (KUninit b)
                | _ ->
                  RStuck (KType
                    ('s'::('t'::('d'::(':'::(':'::('i'::('o'::('t'::('a'::(' '::('o'::('p'::('e'::('r'::('a'::('n'::('d'::('s'::[]))))))))))))))))))))
             | None -> RStuck (KUnbound v))
          | VStr _ ->
            (match lookup b st with
             | Some p0 ->
               let (_, v1) = p0 in
               (match v1 with
                | VUninit -> RStuck (KUninit b)
                | _ ->
                  RStuck (KType
                    ('s'::('t'::('d'::(':'::(':'::('i'::('o'::('t'::('a'::(' '::('o'::('p'::('e'::('r'::('a'::('n'::('d'::('s'::[]))))))))))))))))))))
             | None -> RStuck (KUnbound v))
          | _ ->
            (match lookup b st with
             | Some p0 ->
               let (_, v1) = p0 in
               (match v1 with
                | VUninit -> RStuck (KUninit b)
                | _ ->
                  RStuck (KType
                    ('s'::('t'::('d'::(':'::(':'::('i'::('o'::('t'::('a'::(' '::('o'::('p'::('e'::('r'::('a'::('n'::('d'::('s'::[]))))))))))))))))))))
             | None -> RStuck (KUnbound v)))
       | None -> RStuck (KUnbound v))
    | SUser (_, _, _) ->
      RStuck (KOpaque
        ('u'::('s'::('e'::('r'::(' '::('C'::('+'::('+'::(' '::('b'::('l'::('o'::('c'::('k'::[])))))))))))))))
    | SLine (l, _) -> RStuck (KOpaque l)
    | SFor (x, e, b) ->
      rbind (eval ev st e) (fun c ->
        match c with
        | VVec l ->
          let rec loop l0 st0 =
            match l0 with
            | [] -> ROk st0
            | v :: r ->
              rbind
                (exec_block0 b ((x, (('a'::('u'::('t'::('o'::[])))),
                  v)) :: []) st0) (fun st' -> loop r st')
          in loop l st
        | _ ->
          RStuck (KType
            ('r'::('a'::('n'::('g'::('e'::(' '::('o'::('f'::(' '::('a'::(' '::('f'::('o'::('r'::(' '::('l'::('o'::('o'::('p'::(' '::('i'::('s'::(' '::('n'::('o'::('t'::(' '::('a'::(' '::('v'::('e'::('c'::('t'::('o'::('r'::[])))))))))))))))))))))))))))))))))))))
    | SIf (c, b, els) ->
      rbind (eval ev st c) (fun v ->
        rbind (truth v) (fun t ->
          if t
          then exec_block0 b [] st
          else (match els with
                | Some b2 -> exec_block0 b2 [] st
                | None -> ROk st)))
    | SBlk b -> exec_block0 b [] st
  and exec_block0 b pre st =
    let Blk (ds, body) = b in
    let st0 = { frames = (pre :: st.frames); members = st.members; rows =
      st.rows }
    in
    rbind (run_decls ev ds st0) (fun st1 ->
      rbind (exec_stmts body st1) (fun st2 -> ROk (pop_frame st2)))
  and exec_stmts l st =
    match l with
    | SNil -> ROk st
    | SCons (s, r) -> rbind (exec_stmt s st) (fun st' -> exec_stmts r st')
  in exec_block0

(** val initial_members : member list -> frame **)

let initial_members ms =
  map (fun m -> (m.m_name, (m.m_type, (default_value m.m_type)))) ms

(** val run_event :
    program -> frame -> event -> (value list list * frame) res **)

let run_event p ms ev =
  match exec_block p.p_branches ev p.p_body [] { frames = []; members = ms;
          rows = [] } with
  | ROk st -> ROk (st.rows, st.members)
  | RFault f -> RFault f
  | RStuck k -> RStuck k

type job_result =
| JDone of value list list list
| JAbort of value list list list * nat * fault
| JStuck of nat * stuck

(** val run_job_from :
    program -> frame -> event list -> nat -> value list list list ->
    job_result **)

let rec run_job_from p ms evs n0 acc =
  match evs with
  | [] -> JDone acc
  | ev :: r ->
    (match run_event p ms ev with
     | ROk a ->
       let (rs, ms') = a in run_job_from p ms' r (S n0) (app acc (rs :: []))
     | RFault f -> JAbort (acc, n0, f)
     | RStuck k -> JStuck (n0, k))

(** val run_job : program -> event list -> job_result **)

let run_job p evs =
  run_job_from p (initial_members p.p_members) evs O []

(** val s_value : value -> sexp **)

let rec s_value = function
| VInt z0 -> s_tag ('i'::[]) ((s_Z z0) :: [])
| VDbl q0 ->
  s_tag ('d'::[])
    ((s_Z (qred q0).qnum) :: ((s_Z (Zpos (qred q0).qden)) :: []))
| VBool b -> s_tag ('b'::[]) ((s_bool b) :: [])
| VObj o -> s_tag ('o'::[]) ((s_nat o) :: [])
| VNull -> s_tag ('n'::('u'::('l'::('l'::[])))) []
| VVec l -> s_tag ('v'::[]) (map s_value l)
| VStr s -> s_tag ('s'::[]) ((SAtom s) :: [])
| VSym (f, a) -> s_tag ('s'::('y'::('m'::[]))) ((SAtom f) :: (map s_value a))
| VUninit -> s_tag ('u'::('n'::('i'::('n'::('i'::('t'::[])))))) []

(** val d_value_fuel : nat -> sexp -> value option **)

let rec d_value_fuel fuel s =
  match fuel with
  | O -> None
  | S f ->
    let dl =
      let rec dl = function
      | [] -> Some []
      | x :: r ->
        (match d_value_fuel f x with
         | Some a ->
           (match dl r with
            | Some r' -> Some (a :: r')
            | None -> None)
         | None -> None)
      in dl
    in
    (match s with
     | SAtom _ -> None
     | SList l0 ->
       (match l0 with
        | [] -> None
        | s0 :: l ->
          (match s0 with
           | SAtom s1 ->
             (match s1 with
              | [] -> None
              | a::s2 ->
                (* If this appears, you're using Ascii internals. Please don't *)
 (fun f c ->
  let n = Char.code c in
  let h i = (n land (1 lsl i)) <> 0 in
  f (h 0) (h 1) (h 2) (h 3) (h 4) (h 5) (h 6) (h 7))
                  (fun b0 b1 b2 b3 b4 b5 b6 b7 ->
                  if b0
                  then if b1
                       then if b2
                            then if b3
                                 then if b4
                                      then None
                                      else if b5
                                           then if b6
                                                then if b7
                                                     then None
                                                     else (match s2 with
                                                           | [] ->
                                                             (match l with
                                                              | [] -> None
                                                              | n0 :: l1 ->
                                                                (match l1 with
                                                                 | [] ->
                                                                   option_map
                                                                    (fun x ->
                                                                    VObj x)
                                                                    (d_nat n0)
                                                                 | _ :: _ ->
                                                                   None))
                                                           | _::_ -> None)
                                                else None
                                           else None
                                 else None
                            else if b3
                                 then None
                                 else if b4
                                      then if b5
                                           then if b6
                                                then if b7
                                                     then None
                                                     else (match s2 with
                                                           | [] ->
                                                             (match l with
                                                              | [] -> None
                                                              | s3 :: l1 ->
                                                                (match s3 with
                                                                 | SAtom t ->
                                                                   (match l1 with
                                                                    | [] ->
                                                                    Some
                                                                    (VStr t)
                                                                    | _ :: _ ->
                                                                    None)
                                                                 | SList _ ->
                                                                   None))
                                                           | a0::s3 ->
                                                             (* If this appears, you're using Ascii internals. Please don't *)
 (fun f c ->
  let n = Char.code c in
  let h i = (n land (1 lsl i)) <> 0 in
  f (h 0) (h 1) (h 2) (h 3) (h 4) (h 5) (h 6) (h 7))
                                                               (fun b b8 b9 b10 b11 b12 b13 b14 ->
                                                               if b
                                                               then if b8
                                                                    then None
                                                                    else 
                                                                    if b9
                                                                    then None
                                                                    else 
                                                                    if b10
                                                                    then 
                                                                    if b11
                                                                    then 
                                                                    if b12
                                                                    then 
                                                                    if b13
                                                                    then 
                                                                    if b14
                                                                    then None
                                                                    else 
                                                                    (match s3 with
                                                                    | [] ->
                                                                    None
                                                                    | a1::s4 ->
                                                                    (* If this appears, you're using Ascii internals. Please don't *)
 (fun f c ->
  let n = Char.code c in
  let h i = (n land (1 lsl i)) <> 0 in
  f (h 0) (h 1) (h 2) (h 3) (h 4) (h 5) (h 6) (h 7))
                                                                    (fun b15 b16 b17 b18 b19 b20 b21 b22 ->
                                                                    if b15
                                                                    then 
                                                                    if b16
                                                                    then None
                                                                    else 
                                                                    if b17
                                                                    then 
                                                                    if b18
                                                                    then 
                                                                    if b19
                                                                    then None
                                                                    else 
                                                                    if b20
                                                                    then 
                                                                    if b21
                                                                    then 
                                                                    if b22
                                                                    then None
                                                                    else 
                                                                    (match s4 with
                                                                    | [] ->
                                                                    (match l with
                                                                    | [] ->
                                                                    None
                                                                    | s5 :: l1 ->
                                                                    (match s5 with
                                                                    | SAtom g ->
                                                                    option_map
                                                                    (fun x ->
                                                                    VSym (g,
                                                                    x))
                                                                    (dl l1)
                                                                    | SList _ ->
                                                                    None))
                                                                    | _::_ ->
                                                                    None)
                                                                    else None
                                                                    else None
                                                                    else None
                                                                    else None
                                                                    else None)
                                                                    a1)
                                                                    else None
                                                                    else None
                                                                    else None
                                                                    else None
                                                               else None)
                                                               a0)
                                                else None
                                           else None
                                      else None
                       else if b2
                            then if b3
                                 then None
                                 else if b4
                                      then if b5
                                           then if b6
                                                then if b7
                                                     then None
                                                     else (match s2 with
                                                           | [] -> None
                                                           | a0::s3 ->
                                                             (* If this appears, you're using Ascii internals. Please don't *)
 (fun f c ->
  let n = Char.code c in
  let h i = (n land (1 lsl i)) <> 0 in
  f (h 0) (h 1) (h 2) (h 3) (h 4) (h 5) (h 6) (h 7))
                                                               (fun b b8 b9 b10 b11 b12 b13 b14 ->
                                                               if b
                                                               then None
                                                               else if b8
                                                                    then 
                                                                    if b9
                                                                    then 
                                                                    if b10
                                                                    then 
                                                                    if b11
                                                                    then None
                                                                    else 
                                                                    if b12
                                                                    then 
                                                                    if b13
                                                                    then 
                                                                    if b14
                                                                    then None
                                                                    else 
                                                                    (match s3 with
                                                                    | [] ->
                                                                    None
                                                                    | a1::s4 ->
                                                                    (* If this appears, you're using Ascii internals. Please don't *)
 (fun f c ->
  let n = Char.code c in
  let h i = (n land (1 lsl i)) <> 0 in
  f (h 0) (h 1) (h 2) (h 3) (h 4) (h 5) (h 6) (h 7))
                                                                    (fun b15 b16 b17 b18 b19 b20 b21 b22 ->
                                                                    if b15
                                                                    then 
                                                                    if b16
                                                                    then None
                                                                    else 
                                                                    if b17
                                                                    then None
                                                                    else 
                                                                    if b18
                                                                    then 
                                                                    if b19
                                                                    then None
                                                                    else 
                                                                    if b20
                                                                    then 
                                                                    if b21
                                                                    then 
                                                                    if b22
                                                                    then None
                                                                    else 
                                                                    (match s4 with
                                                                    | [] ->
                                                                    None
                                                                    | a2::s5 ->
                                                                    (* If this appears, you're using Ascii internals. Please don't *)
 (fun f c ->
  let n = Char.code c in
  let h i = (n land (1 lsl i)) <> 0 in
  f (h 0) (h 1) (h 2) (h 3) (h 4) (h 5) (h 6) (h 7))
                                                                    (fun b23 b24 b25 b26 b27 b28 b29 b30 ->
                                                                    if b23
                                                                    then None
                                                                    else 
                                                                    if b24
                                                                    then 
                                                                    if b25
                                                                    then 
                                                                    if b26
                                                                    then 
                                                                    if b27
                                                                    then None
                                                                    else 
                                                                    if b28
                                                                    then 
                                                                    if b29
                                                                    then 
                                                                    if b30
                                                                    then None
                                                                    else 
                                                                    (match s5 with
                                                                    | [] ->
                                                                    None
                                                                    | a3::s6 ->
                                                                    (* If this appears, you're using Ascii internals. Please don't *)
 (fun f c ->
  let n = Char.code c in
  let h i = (n land (1 lsl i)) <> 0 in
  f (h 0) (h 1) (h 2) (h 3) (h 4) (h 5) (h 6) (h 7))
                                                                    (fun b31 b32 b33 b34 b35 b36 b37 b38 ->
                                                                    if b31
                                                                    then 
                                                                    if b32
                                                                    then None
                                                                    else 
                                                                    if b33
                                                                    then None
                                                                    else 
                                                                    if b34
                                                                    then 
                                                                    if b35
                                                                    then None
                                                                    else 
                                                                    if b36
                                                                    then 
                                                                    if b37
                                                                    then 
                                                                    if b38
                                                                    then None
                                                                    else 
                                                                    (match s6 with
                                                                    | [] ->
                                                                    None
                                                                    | a4::s7 ->
                                                                    (* If this appears, you're using Ascii internals. Please don't *)
 (fun f c ->
  let n = Char.code c in
  let h i = (n land (1 lsl i)) <> 0 in
  f (h 0) (h 1) (h 2) (h 3) (h 4) (h 5) (h 6) (h 7))
                                                                    (fun b39 b40 b41 b42 b43 b44 b45 b46 ->
                                                                    if b39
                                                                    then None
                                                                    else 
                                                                    if b40
                                                                    then None
                                                                    else 
                                                                    if b41
                                                                    then 
                                                                    if b42
                                                                    then None
                                                                    else 
                                                                    if b43
                                                                    then 
                                                                    if b44
                                                                    then 
                                                                    if b45
                                                                    then 
                                                                    if b46
                                                                    then None
                                                                    else 
                                                                    (match s7 with
                                                                    | [] ->
                                                                    (match l with
                                                                    | [] ->
                                                                    Some
                                                                    VUninit
                                                                    | _ :: _ ->
                                                                    None)
                                                                    | _::_ ->
                                                                    None)
                                                                    else None
                                                                    else None
                                                                    else None
                                                                    else None)
                                                                    a4)
                                                                    else None
                                                                    else None
                                                                    else None
                                                                    else None)
                                                                    a3)
                                                                    else None
                                                                    else None
                                                                    else None
                                                                    else None
                                                                    else None)
                                                                    a2)
                                                                    else None
                                                                    else None
                                                                    else None
                                                                    else None)
                                                                    a1)
                                                                    else None
                                                                    else None
                                                                    else None
                                                                    else None
                                                                    else None)
                                                               a0)
                                                else None
                                           else None
                                      else None
                            else if b3
                                 then if b4
                                      then None
                                      else if b5
                                           then if b6
                                                then if b7
                                                     then None
                                                     else (match s2 with
                                                           | [] ->
                                                             (match l with
                                                              | [] -> None
                                                              | z0 :: l1 ->
                                                                (match l1 with
                                                                 | [] ->
                                                                   option_map
                                                                    (fun x ->
                                                                    VInt x)
                                                                    (d_Z z0)
                                                                 | _ :: _ ->
                                                                   None))
                                                           | _::_ -> None)
                                                else None
                                           else None
                                 else None
                  else if b1
                       then if b2
                            then if b3
                                 then if b4
                                      then None
                                      else if b5
                                           then if b6
                                                then if b7
                                                     then None
                                                     else (match s2 with
                                                           | [] -> None
                                                           | a0::s3 ->
                                                             (* If this appears, you're using Ascii internals. Please don't *)
 (fun f c ->
  let n = Char.code c in
  let h i = (n land (1 lsl i)) <> 0 in
  f (h 0) (h 1) (h 2) (h 3) (h 4) (h 5) (h 6) (h 7))
                                                               (fun b b8 b9 b10 b11 b12 b13 b14 ->
                                                               if b
                                                               then if b8
                                                                    then None
                                                                    else 
                                                                    if b9
                                                                    then 
                                                                    if b10
                                                                    then None
                                                                    else 
                                                                    if b11
                                                                    then 
                                                                    if b12
                                                                    then 
                                                                    if b13
                                                                    then 
                                                                    if b14
                                                                    then None
                                                                    else 
                                                                    (match s3 with
                                                                    | [] ->
                                                                    None
                                                                    | a1::s4 ->
                                                                    (* If this appears, you're using Ascii internals. Please don't *)
 (fun f c ->
  let n = Char.code c in
  let h i = (n land (1 lsl i)) <> 0 in
  f (h 0) (h 1) (h 2) (h 3) (h 4) (h 5) (h 6) (h 7))
                                                                    (fun b15 b16 b17 b18 b19 b20 b21 b22 ->
                                                                    if b15
                                                                    then None
                                                                    else 
                                                                    if b16
                                                                    then None
                                                                    else 
                                                                    if b17
                                                                    then 
                                                                    if b18
                                                                    then 
                                                                    if b19
                                                                    then None
                                                                    else 
                                                                    if b20
                                                                    then 
                                                                    if b21
                                                                    then 
                                                                    if b22
                                                                    then None
                                                                    else 
                                                                    (match s4 with
                                                                    | [] ->
                                                                    None
                                                                    | a2::s5 ->
                                                                    (* If this appears, you're using Ascii internals. Please don't *)
 (fun f c ->
  let n = Char.code c in
  let h i = (n land (1 lsl i)) <> 0 in
  f (h 0) (h 1) (h 2) (h 3) (h 4) (h 5) (h 6) (h 7))
                                                                    (fun b23 b24 b25 b26 b27 b28 b29 b30 ->
                                                                    if b23
                                                                    then None
                                                                    else 
                                                                    if b24
                                                                    then None
                                                                    else 
                                                                    if b25
                                                                    then 
                                                                    if b26
                                                                    then 
                                                                    if b27
                                                                    then None
                                                                    else 
                                                                    if b28
                                                                    then 
                                                                    if b29
                                                                    then 
                                                                    if b30
                                                                    then None
                                                                    else 
                                                                    (match s5 with
                                                                    | [] ->
                                                                    (match l with
                                                                    | [] ->
                                                                    Some VNull
                                                                    | _ :: _ ->
                                                                    None)
                                                                    | _::_ ->
                                                                    None)
                                                                    else None
                                                                    else None
                                                                    else None
                                                                    else None)
                                                                    a2)
                                                                    else None
                                                                    else None
                                                                    else None
                                                                    else None)
                                                                    a1)
                                                                    else None
                                                                    else None
                                                                    else None
                                                                    else None
                                                               else None)
                                                               a0)
                                                else None
                                           else None
                                 else if b4
                                      then if b5
                                           then if b6
                                                then if b7
                                                     then None
                                                     else (match s2 with
                                                           | [] ->
                                                             option_map
                                                               (fun x -> VVec
                                                               x) (dl l)
                                                           | _::_ -> None)
                                                else None
                                           else None
                                      else None
                            else if b3
                                 then None
                                 else if b4
                                      then None
                                      else if b5
                                           then if b6
                                                then if b7
                                                     then None
                                                     else (match s2 with
                                                           | [] ->
                                                             (match l with
                                                              | [] -> None
                                                              | b :: l1 ->
                                                                (match l1 with
                                                                 | [] ->
                                                                   option_map
                                                                    (fun x ->
                                                                    VBool x)
                                                                    (d_bool b)
                                                                 | _ :: _ ->
                                                                   None))
                                                           | _::_ -> None)
                                                else None
                                           else None
                       else if b2
                            then if b3
                                 then None
                                 else if b4
                                      then None
                                      else if b5
                                           then if b6
                                                then if b7
                                                     then None
                                                     else (match s2 with
                                                           | [] ->
                                                             (match l with
                                                              | [] -> None
                                                              | n0 :: l1 ->
                                                                (match l1 with
                                                                 | [] -> None
                                                                 | d :: l2 ->
                                                                   (match l2 with
                                                                    | [] ->
                                                                    (match 
                                                                    d_Z n0 with
                                                                    | Some n' ->
                                                                    (match 
                                                                    d_Z d with
                                                                    | Some z0 ->
                                                                    (match z0 with
                                                                    | Zpos d' ->
                                                                    Some
                                                                    (VDbl
                                                                    (qred
                                                                    { qnum =
                                                                    n';
                                                                    qden =
                                                                    d' }))
                                                                    | _ ->
                                                                    None)
                                                                    | None ->
                                                                    None)
                                                                    | None ->
                                                                    None)
                                                                    | _ :: _ ->
                                                                    None)))
                                                           | _::_ -> None)
                                                else None
                                           else None
                            else None)
                  a)
           | SList _ -> None)))

(** val d_value : sexp -> value option **)

let d_value s =
  d_value_fuel (S (sexp_depth s)) s

(** val d_event : sexp -> event option **)

let d_event = function
| SAtom _ -> None
| SList l ->
  (match l with
   | [] -> None
   | s0 :: l0 ->
     (match s0 with
      | SAtom _ -> None
      | SList cs ->
        (match l0 with
         | [] -> None
         | s1 :: l1 ->
           (match s1 with
            | SAtom _ -> None
            | SList ms ->
              (match l1 with
               | [] ->
                 let dc = fun x ->
                   match x with
                   | SAtom _ -> None
                   | SList l2 ->
                     (match l2 with
                      | [] -> None
                      | s2 :: l3 ->
                        (match s2 with
                         | SAtom ct ->
                           (match l3 with
                            | [] -> None
                            | s3 :: l4 ->
                              (match s3 with
                               | SAtom bank ->
                                 (match l4 with
                                  | [] -> None
                                  | v :: l5 ->
                                    (match l5 with
                                     | [] ->
                                       option_map (fun v' -> ((ct, bank),
                                         v')) (d_value v)
                                     | _ :: _ -> None))
                               | SList _ -> None))
                         | SList _ -> None))
                 in
                 let dm = fun x ->
                   match x with
                   | SAtom _ -> None
                   | SList l2 ->
                     (match l2 with
                      | [] -> None
                      | o :: l3 ->
                        (match l3 with
                         | [] -> None
                         | s2 :: l4 ->
                           (match s2 with
                            | SAtom m ->
                              (match l4 with
                               | [] -> None
                               | v :: l5 ->
                                 (match l5 with
                                  | [] ->
                                    (match d_nat o with
                                     | Some o' ->
                                       (match d_value v with
                                        | Some v' -> Some ((o', m), v')
                                        | None -> None)
                                     | None -> None)
                                  | _ :: _ -> None))
                            | SList _ -> None)))
                 in
                 (match d_list dc cs with
                  | Some cs' ->
                    (match d_list dm ms with
                     | Some ms' -> Some { ev_colls = cs'; ev_meths = ms' }
                     | None -> None)
                  | None -> None)
               | _ :: _ -> None)))))

(** val s_fault : fault -> sexp **)

let s_fault f =
  SAtom
    (match f with
     | FThrow -> 't'::('h'::('r'::('o'::('w'::[]))))
     | FOutOfRange ->
       'o'::('u'::('t'::('_'::('o'::('f'::('_'::('r'::('a'::('n'::('g'::('e'::[])))))))))))
     | FNullDeref ->
       'n'::('u'::('l'::('l'::('_'::('d'::('e'::('r'::('e'::('f'::[])))))))))
     | FDivZero -> 'd'::('i'::('v'::('_'::('z'::('e'::('r'::('o'::[])))))))
     | FRetrieve ->
       'r'::('e'::('t'::('r'::('i'::('e'::('v'::('e'::('_'::('f'::('a'::('i'::('l'::('e'::('d'::[])))))))))))))))

(** val s_stuck : stuck -> sexp **)

let s_stuck = function
| KUnbound x ->
  s_tag ('u'::('n'::('b'::('o'::('u'::('n'::('d'::[]))))))) ((SAtom x) :: [])
| KUninit x ->
  s_tag
    ('u'::('n'::('i'::('n'::('i'::('t'::('-'::('r'::('e'::('a'::('d'::[])))))))))))
    ((SAtom x) :: [])
| KType w -> s_tag ('t'::('y'::('p'::('e'::[])))) ((SAtom w) :: [])
| KOpaque w ->
  s_tag ('o'::('p'::('a'::('q'::('u'::('e'::[])))))) ((SAtom w) :: [])

(** val s_rows : value list list -> sexp **)

let s_rows rs =
  SList (map (fun r -> SList (map s_value r)) rs)

(** val s_job : job_result -> sexp **)

let s_job = function
| JDone rs ->
  s_tag ('d'::('o'::('n'::('e'::[])))) ((SList (map s_rows rs)) :: [])
| JAbort (rs, n0, f) ->
  s_tag ('a'::('b'::('o'::('r'::('t'::[]))))) ((SList
    (map s_rows rs)) :: ((s_nat n0) :: ((s_fault f) :: [])))
| JStuck (n0, k) ->
  s_tag ('s'::('t'::('u'::('c'::('k'::[])))))
    ((s_nat n0) :: ((s_stuck k) :: []))

(** val run_run : sexp -> sexp **)

let run_run = function
| SAtom _ -> bad_input
| SList l ->
  (match l with
   | [] -> bad_input
   | p :: l0 ->
     (match l0 with
      | [] -> bad_input
      | s0 :: l1 ->
        (match s0 with
         | SAtom _ -> bad_input
         | SList evs ->
           (match l1 with
            | [] ->
              (match d_program p with
               | Some p' ->
                 (match d_list d_event evs with
                  | Some evs' -> s_job (run_job p' evs')
                  | None -> bad_input)
               | None -> bad_input)
            | _ :: _ -> bad_input))))

(** val member_type : char list -> member list -> char list option **)

let rec member_type x = function
| [] -> None
| m :: r -> if eqb0 x m.m_name then Some m.m_type else member_type x r

(** val count_member : char list -> member list -> nat **)

let rec count_member x = function
| [] -> O
| m :: r -> add (if eqb0 x m.m_name then S O else O) (count_member x r)

(** val column_types :
    member list -> branch list -> (char list * char list) list option **)

let rec column_types ms = function
| [] -> Some []
| b :: r ->
  (match member_type b.br_var ms with
   | Some t ->
     (match column_types ms r with
      | Some r' -> Some ((b.br_var, t) :: r')
      | None -> None)
   | None -> None)

(** val nodup_str : char list list -> bool **)

let rec nodup_str = function
| [] -> true
| x :: r -> (&&) (negb (mem_str x r)) (nodup_str r)

(** val col_type :
    char list -> (char list * char list) list -> char list option **)

let rec col_type x = function
| [] -> None
| p :: r -> let (y, t) = p in if eqb0 x y then Some t else col_type x r

(** val is_col : (char list * char list) list -> char list -> bool **)

let is_col cols x =
  match col_type x cols with
  | Some _ -> true
  | None -> false

(** val is_vec_col : (char list * char list) list -> char list -> bool **)

let is_vec_col cols x =
  match col_type x cols with
  | Some t -> is_vector_type t
  | None -> false

(** val is_scalar_col : (char list * char list) list -> char list -> bool **)

let is_scalar_col cols x =
  match col_type x cols with
  | Some t -> negb (is_vector_type t)
  | None -> false

(** val vec_cols : (char list * char list) list -> char list list **)

let vec_cols cols =
  map fst (filter (fun c -> is_vector_type (snd c)) cols)

(** val none_is_col :
    (char list * char list) list -> char list list -> bool **)

let none_is_col cols ids =
  forallb (fun x -> negb (is_col cols x)) ids

(** val strip_clears : char list list -> stmts -> stmts option **)

let rec strip_clears xs l =
  match xs with
  | [] -> Some l
  | x :: r ->
    (match l with
     | SNil -> None
     | SCons (s, l') ->
       (match s with
        | SClear y -> if eqb0 x y then strip_clears r l' else None
        | _ -> None))

(** val fill_line_ok : bool -> char list -> char list -> bool **)

let fill_line_ok atlas tree line =
  (&&) (negb (eqb0 tree []))
    (if atlas
     then eqb0 line
            (append ('t'::('r'::('e'::('e'::('('::('"'::[]))))))
              (append tree
                ('"'::(')'::('-'::('>'::('F'::('i'::('l'::('l'::('('::(')'::(';'::[])))))))))))))
     else eqb0 line
            ('m'::('y'::('T'::('r'::('e'::('e'::('-'::('>'::('F'::('i'::('l'::('l'::('('::(')'::(';'::[]))))))))))))))))

(** val ok_block :
    bool -> char list -> (char list * char list) list -> block -> bool **)

let ok_block atlas tree cols =
  let rec ok_stmt = function
  | SSet (x, _, _) -> (||) (negb (is_col cols x)) (is_scalar_col cols x)
  | SPush (x, _, _) -> (||) (negb (is_col cols x)) (is_vec_col cols x)
  | SClear x -> (||) (negb (is_col cols x)) (is_vec_col cols x)
  | SFill line -> fill_line_ok atlas tree line
  | SThrow _ -> true
  | SFetch (_, target, _, _, _) -> negb (is_col cols target)
  | SIota (v, _) -> negb (is_col cols v)
  | SUser (_, ids, target) ->
    (&&) (none_is_col cols ids)
      (match target with
       | Some t -> negb (is_col cols t)
       | None -> true)
  | SLine (_, ids) -> none_is_col cols ids
  | SFor (x, _, b) -> (&&) (negb (is_col cols x)) (ok_block0 b)
  | SIf (_, b, els) ->
    (&&) (ok_block0 b) (match els with
                        | Some b2 -> ok_block0 b2
                        | None -> true)
  | SBlk b -> ok_block0 b
  and ok_block0 = function
  | Blk (ds, body) ->
    (&&) (forallb (fun d -> negb (is_col cols d.d_name)) ds) (ok_stmts body)
  and ok_stmts = function
  | SNil -> true
  | SCons (s, r) ->
    (&&)
      ((&&) (ok_stmt s)
        (match s with
         | SFill _ ->
           (match strip_clears (vec_cols cols) r with
            | Some _ -> true
            | None -> false)
         | _ -> true)) (ok_stmts r)
  in ok_block0

(** val branches_ok : program -> bool **)

let branches_ok p =
  (&&) (nodup_str (map (fun b -> b.br_var) p.p_branches))
    (forallb (fun b -> Nat.eqb (count_member b.br_var p.p_members) (S O))
      p.p_branches)

(** val fill_consistent_for : bool -> program -> bool **)

let fill_consistent_for atlas p =
  match column_types p.p_members p.p_branches with
  | Some cols -> (&&) (branches_ok p) (ok_block atlas p.p_tree cols p.p_body)
  | None -> false

(** val run_fillcheck : sexp -> sexp **)

let run_fillcheck = function
| SAtom _ -> bad_input
| SList l ->
  (match l with
   | [] -> bad_input
   | a :: l0 ->
     (match l0 with
      | [] -> bad_input
      | p :: l1 ->
        (match l1 with
         | [] ->
           (match d_bool a with
            | Some a' ->
              (match d_program p with
               | Some p' ->
                 SList
                   ((s_bool (fill_consistent_for a' p')) :: ((s_bool
                                                               (branches_ok
                                                                 p')) :: ((
                   match column_types p'.p_members p'.p_branches with
                   | Some cols ->
                     SList
                       (map (fun c -> SList ((SAtom (fst c)) :: ((SAtom
                         (snd c)) :: []))) cols)
                   | None -> SAtom ('n'::('o'::('n'::('e'::[]))))) :: [])))
               | None -> bad_input)
            | None -> bad_input)
         | _ :: _ -> bad_input)))

type backend =
| BeAtlas
| BeCmsAod
| BeCmsMiniaod

(** val prefix_of : backend -> char list **)

let prefix_of = function
| BeAtlas ->
  'a'::('t'::('l'::('a'::('s'::('_'::('x'::('a'::('o'::('d'::[])))))))))
| BeCmsAod -> 'c'::('m'::('s'::('_'::('a'::('o'::('d'::[]))))))
| BeCmsMiniaod ->
  'c'::('m'::('s'::('_'::('m'::('i'::('n'::('i'::('a'::('o'::('d'::[]))))))))))

type colrep =
| KVal of char list * char list option
| KSeq of colrep
| KColl of char list
| KStruct of bool

type rowshape =
| RDict of (char list * colrep) list
| RTuple of colrep list
| RSingle of colrep

type names_arg =
| NList of char list list
| NStr of char list

type terminal =
| TImplicit
| TExplicit of names_arg * char list

(** val unique_name : char list -> bool -> nat -> char list **)

let unique_name name is_class_var index =
  append (if is_class_var then '_'::[] else []) (append name (dec_nat index))

(** val vector_of : char list -> char list **)

let vector_of t =
  append
    ('s'::('t'::('d'::(':'::(':'::('v'::('e'::('c'::('t'::('o'::('r'::('<'::[]))))))))))))
    (append t ('>'::[]))

(** val cpp_type_of : colrep -> char list result **)

let rec cpp_type_of = function
| KVal (ty, _) -> OK ty
| KSeq i ->
  (match cpp_type_of i with
   | OK t -> OK (vector_of t)
   | Error e -> Error e)
| KColl ty -> OK ty
| KStruct _ -> Error ErrAttr

(** val tree_type_of : colrep -> char list result **)

let tree_type_of r = match r with
| KVal (_, tree_ty) ->
  (match tree_ty with
   | Some t -> OK t
   | None -> cpp_type_of r)
| _ -> cpp_type_of r

(** val get_ttree_type : colrep -> char list result **)

let get_ttree_type r = match r with
| KSeq inner ->
  (match inner with
   | KStruct _ -> Error ErrRuntime
   | _ ->
     (match tree_type_of inner with
      | OK t -> OK (vector_of t)
      | Error e -> Error e))
| KStruct top -> if top then Error ErrValue else Error ErrAttr
| _ -> tree_type_of r

(** val rep_is_collection : colrep -> bool **)

let rep_is_collection = function
| KVal (_, _) -> false
| KStruct _ -> false
| _ -> true

(** val extract_column_names : names_arg -> char list list **)

let extract_column_names = function
| NList l -> l
| NStr s -> s :: []

(** val default_names_from : nat -> nat -> char list list **)

let rec default_names_from i = function
| O -> []
| S k ->
  (append ('c'::('o'::('l'::[]))) (dec_nat i)) :: (default_names_from (S i) k)

(** val default_names : nat -> char list list **)

let default_names n0 =
  default_names_from O n0

type ttree_call = { tc_names : names_arg; tc_tree : char list;
                    tc_cols : colrep list }

(** val row_columns_explicit : rowshape -> colrep list **)

let row_columns_explicit = function
| RDict _ -> (KStruct false) :: []
| RTuple cols -> cols
| RSingle c -> c :: []

(** val get_as_ROOT : backend -> terminal -> rowshape -> ttree_call result **)

let get_as_ROOT b t r =
  match t with
  | TImplicit ->
    let tree = append (prefix_of b) ('_'::('t'::('r'::('e'::('e'::[]))))) in
    (match r with
     | RDict items ->
       OK { tc_names = (NList (map fst items)); tc_tree = tree; tc_cols =
         (map snd items) }
     | RTuple cols ->
       OK { tc_names = (NList (default_names (length cols))); tc_tree = tree;
         tc_cols = cols }
     | RSingle c ->
       (match c with
        | KStruct _ -> Error ErrValue
        | x ->
          OK { tc_names = (NStr ('c'::('o'::('l'::('1'::[]))))); tc_tree =
            tree; tc_cols = (x :: []) }))
  | TExplicit (names, tree) ->
    OK { tc_names = names; tc_tree = tree; tc_cols =
      (row_columns_explicit r) }

type column = { c_name : char list; c_var : char list; c_type : char list;
                c_is_vec : bool }

type schema = { sc_tree : char list; sc_columns : column list;
                sc_class_decl : char list list; sc_book : char list list;
                sc_fill : char list; sc_clears : char list list;
                sc_descr : (char list * char list); sc_next_index : nat }

(** val make_columns :
    char list list -> colrep list -> nat -> column list result **)

let rec make_columns names cols index =
  match names with
  | [] -> OK []
  | n0 :: ns ->
    (match cols with
     | [] -> OK []
     | c :: cs ->
       (match get_ttree_type c with
        | OK t ->
          (match make_columns ns cs (S index) with
           | OK r ->
             OK ({ c_name = n0; c_var = (unique_name n0 true index); c_type =
               t; c_is_vec = (rep_is_collection c) } :: r)
           | Error e -> Error e)
        | Error e -> Error e))

(** val fill_assert : colrep list -> unit result **)

let rec fill_assert = function
| [] -> OK ()
| c :: r -> (match c with
             | KColl _ -> Error ErrAssert
             | _ -> fill_assert r)

(** val class_declaration_code : column list -> char list list **)

let class_declaration_code cs =
  map (fun c ->
    append c.c_type (append (' '::[]) (append c.c_var (';'::[])))) cs

(** val branch_line : column -> char list **)

let branch_line c =
  append
    ('m'::('y'::('T'::('r'::('e'::('e'::('-'::('>'::('B'::('r'::('a'::('n'::('c'::('h'::('('::('"'::[]))))))))))))))))
    (append c.c_name
      (append ('"'::(','::(' '::('&'::[]))))
        (append c.c_var (')'::(';'::[])))))

(** val book_emit : backend -> char list -> column list -> char list list **)

let book_emit b tree cs =
  app
    (match b with
     | BeAtlas ->
       (append
         ('A'::('N'::('A'::('_'::('C'::('H'::('E'::('C'::('K'::(' '::('('::('b'::('o'::('o'::('k'::(' '::('('::('T'::('T'::('r'::('e'::('e'::(' '::('('::('"'::[])))))))))))))))))))))))))
         (append tree
           ('"'::(','::(' '::('"'::('M'::('y'::(' '::('a'::('n'::('a'::('l'::('y'::('s'::('i'::('s'::(' '::('n'::('t'::('u'::('p'::('l'::('e'::('"'::(')'::(')'::(')'::(';'::[]))))))))))))))))))))))))))))) :: (
         (append
           ('a'::('u'::('t'::('o'::(' '::('m'::('y'::('T'::('r'::('e'::('e'::(' '::('='::(' '::('t'::('r'::('e'::('e'::(' '::('('::('"'::[])))))))))))))))))))))
           (append tree ('"'::(')'::(';'::[]))))) :: [])
     | _ ->
       ('e'::('d'::('m'::(':'::(':'::('S'::('e'::('r'::('v'::('i'::('c'::('e'::('<'::('T'::('F'::('i'::('l'::('e'::('S'::('e'::('r'::('v'::('i'::('c'::('e'::('>'::(' '::('f'::('s'::(';'::[])))))))))))))))))))))))))))))) :: (
         (append
           ('m'::('y'::('T'::('r'::('e'::('e'::(' '::('='::(' '::('f'::('s'::('-'::('>'::('m'::('a'::('k'::('e'::('<'::('T'::('T'::('r'::('e'::('e'::('>'::('('::('"'::[]))))))))))))))))))))))))))
           (append tree
             ('"'::(','::(' '::('"'::('M'::('y'::(' '::('a'::('n'::('a'::('l'::('y'::('s'::('i'::('s'::(' '::('n'::('t'::('u'::('p'::('l'::('e'::('"'::(')'::(';'::[]))))))))))))))))))))))))))) :: []))
    (map branch_line cs)

(** val fill_emit : backend -> char list -> char list **)

let fill_emit b tree =
  match b with
  | BeAtlas ->
    append ('t'::('r'::('e'::('e'::('('::('"'::[]))))))
      (append tree
        ('"'::(')'::('-'::('>'::('F'::('i'::('l'::('l'::('('::(')'::(';'::[]))))))))))))
  | _ ->
    'm'::('y'::('T'::('r'::('e'::('e'::('-'::('>'::('F'::('i'::('l'::('l'::('('::(')'::(';'::[]))))))))))))))

(** val descriptor_file : char list **)

let descriptor_file =
  'A'::('N'::('A'::('L'::('Y'::('S'::('I'::('S'::('.'::('r'::('o'::('o'::('t'::[]))))))))))))

(** val call_ResultTTree : backend -> nat -> ttree_call -> schema result **)

let call_ResultTTree b index tc =
  let names = extract_column_names tc.tc_names in
  let cols = tc.tc_cols in
  if negb (Nat.eqb (length cols) (length names))
  then Error ErrRuntime
  else (match make_columns names cols index with
        | OK cs ->
          (match fill_assert cols with
           | OK _ ->
             OK { sc_tree = tc.tc_tree; sc_columns = cs; sc_class_decl =
               (class_declaration_code cs); sc_book =
               (book_emit b tc.tc_tree cs); sc_fill =
               (fill_emit b tc.tc_tree); sc_clears =
               (map (fun c ->
                 append c.c_var
                   ('.'::('c'::('l'::('e'::('a'::('r'::('('::(')'::(';'::[]))))))))))
                 (filter (fun c -> c.c_is_vec) cs)); sc_descr =
               (descriptor_file, tc.tc_tree); sc_next_index = (S
               (add index (length cs))) }
           | Error e -> Error e)
        | Error e -> Error e)

(** val translate_terminal :
    backend -> nat -> terminal -> rowshape -> schema result **)

let translate_terminal b index t r =
  match get_as_ROOT b t r with
  | OK tc -> call_ResultTTree b index tc
  | Error e -> Error e

(** val expected_names : terminal -> rowshape -> char list list **)

let expected_names t r =
  match t with
  | TImplicit ->
    (match r with
     | RDict items -> map fst items
     | RTuple cols -> default_names (length cols)
     | RSingle _ -> ('c'::('o'::('l'::('1'::[])))) :: [])
  | TExplicit (names, _) -> extract_column_names names

(** val expected_tree : backend -> terminal -> char list **)

let expected_tree b = function
| TImplicit -> append (prefix_of b) ('_'::('t'::('r'::('e'::('e'::[])))))
| TExplicit (_, tree) -> tree

(** val d_backend : sexp -> backend option **)

let d_backend = function
| SAtom s0 ->
  (match s0 with
   | [] -> None
   | a::s1 ->
     (* If this appears, you're using Ascii internals. Please don't *)
 (fun f c ->
  let n = Char.code c in
  let h i = (n land (1 lsl i)) <> 0 in
  f (h 0) (h 1) (h 2) (h 3) (h 4) (h 5) (h 6) (h 7))
       (fun b b0 b1 b2 b3 b4 b5 b6 ->
       if b
       then if b0
            then if b1
                 then None
                 else if b2
                      then None
                      else if b3
                           then None
                           else if b4
                                then if b5
                                     then if b6
                                          then None
                                          else (match s1 with
                                                | [] -> None
                                                | a0::s2 ->
                                                  (* If this appears, you're using Ascii internals. Please don't *)
 (fun f c ->
  let n = Char.code c in
  let h i = (n land (1 lsl i)) <> 0 in
  f (h 0) (h 1) (h 2) (h 3) (h 4) (h 5) (h 6) (h 7))
                                                    (fun b7 b8 b9 b10 b11 b12 b13 b14 ->
                                                    if b7
                                                    then if b8
                                                         then None
                                                         else if b9
                                                              then if b10
                                                                   then 
                                                                    if b11
                                                                    then None
                                                                    else 
                                                                    if b12
                                                                    then 
                                                                    if b13
                                                                    then 
                                                                    if b14
                                                                    then None
                                                                    else 
                                                                    (match s2 with
                                                                    | [] ->
                                                                    None
                                                                    | a1::s3 ->
                                                                    (* If this appears, you're using Ascii internals. Please don't *)
 (fun f c ->
  let n = Char.code c in
  let h i = (n land (1 lsl i)) <> 0 in
  f (h 0) (h 1) (h 2) (h 3) (h 4) (h 5) (h 6) (h 7))
                                                                    (fun b15 b16 b17 b18 b19 b20 b21 b22 ->
                                                                    if b15
                                                                    then 
                                                                    if b16
                                                                    then 
                                                                    if b17
                                                                    then None
                                                                    else 
                                                                    if b18
                                                                    then None
                                                                    else 
                                                                    if b19
                                                                    then 
                                                                    if b20
                                                                    then 
                                                                    if b21
                                                                    then 
                                                                    if b22
                                                                    then None
                                                                    else 
                                                                    (match s3 with
                                                                    | [] ->
                                                                    None
                                                                    | a2::s4 ->
                                                                    (* If this appears, you're using Ascii internals. Please don't *)
 (fun f c ->
  let n = Char.code c in
  let h i = (n land (1 lsl i)) <> 0 in
  f (h 0) (h 1) (h 2) (h 3) (h 4) (h 5) (h 6) (h 7))
                                                                    (fun b23 b24 b25 b26 b27 b28 b29 b30 ->
                                                                    if b23
                                                                    then 
                                                                    if b24
                                                                    then 
                                                                    if b25
                                                                    then 
                                                                    if b26
                                                                    then 
                                                                    if b27
                                                                    then 
                                                                    if b28
                                                                    then None
                                                                    else 
                                                                    if b29
                                                                    then 
                                                                    if b30
                                                                    then None
                                                                    else 
                                                                    (match s4 with
                                                                    | [] ->
                                                                    None
                                                                    | a3::s5 ->
                                                                    (* If this appears, you're using Ascii internals. Please don't *)
 (fun f c ->
  let n = Char.code c in
  let h i = (n land (1 lsl i)) <> 0 in
  f (h 0) (h 1) (h 2) (h 3) (h 4) (h 5) (h 6) (h 7))
                                                                    (fun b31 b32 b33 b34 b35 b36 b37 b38 ->
                                                                    if b31
                                                                    then 
                                                                    if b32
                                                                    then None
                                                                    else 
                                                                    if b33
                                                                    then 
                                                                    if b34
                                                                    then 
                                                                    if b35
                                                                    then None
                                                                    else 
                                                                    if b36
                                                                    then 
                                                                    if b37
                                                                    then 
                                                                    if b38
                                                                    then None
                                                                    else 
                                                                    (match s5 with
                                                                    | [] ->
                                                                    None
                                                                    | a4::s6 ->
                                                                    (* If this appears, you're using Ascii internals. Please don't *)
 (fun f c ->
  let n = Char.code c in
  let h i = (n land (1 lsl i)) <> 0 in
  f (h 0) (h 1) (h 2) (h 3) (h 4) (h 5) (h 6) (h 7))
                                                                    (fun b39 b40 b41 b42 b43 b44 b45 b46 ->
                                                                    if b39
                                                                    then 
                                                                    if b40
                                                                    then None
                                                                    else 
                                                                    if b41
                                                                    then None
                                                                    else 
                                                                    if b42
                                                                    then 
                                                                    if b43
                                                                    then None
                                                                    else 
                                                                    if b44
                                                                    then 
                                                                    if b45
                                                                    then 
                                                                    if b46
                                                                    then None
                                                                    else 
                                                                    (match s6 with
                                                                    | [] ->
                                                                    None
                                                                    | a5::s7 ->
                                                                    (* If this appears, you're using Ascii internals. Please don't *)
 (fun f c ->
  let n = Char.code c in
  let h i = (n land (1 lsl i)) <> 0 in
  f (h 0) (h 1) (h 2) (h 3) (h 4) (h 5) (h 6) (h 7))
                                                                    (fun b47 b48 b49 b50 b51 b52 b53 b54 ->
                                                                    if b47
                                                                    then None
                                                                    else 
                                                                    if b48
                                                                    then 
                                                                    if b49
                                                                    then 
                                                                    if b50
                                                                    then 
                                                                    if b51
                                                                    then None
                                                                    else 
                                                                    if b52
                                                                    then 
                                                                    if b53
                                                                    then 
                                                                    if b54
                                                                    then None
                                                                    else 
                                                                    (match s7 with
                                                                    | [] ->
                                                                    None
                                                                    | a6::s8 ->
                                                                    (* If this appears, you're using Ascii internals. Please don't *)
 (fun f c ->
  let n = Char.code c in
  let h i = (n land (1 lsl i)) <> 0 in
  f (h 0) (h 1) (h 2) (h 3) (h 4) (h 5) (h 6) (h 7))
                                                                    (fun b55 b56 b57 b58 b59 b60 b61 b62 ->
                                                                    if b55
                                                                    then 
                                                                    if b56
                                                                    then None
                                                                    else 
                                                                    if b57
                                                                    then None
                                                                    else 
                                                                    if b58
                                                                    then 
                                                                    if b59
                                                                    then None
                                                                    else 
                                                                    if b60
                                                                    then 
                                                                    if b61
                                                                    then 
                                                                    if b62
                                                                    then None
                                                                    else 
                                                                    (match s8 with
                                                                    | [] ->
                                                                    None
                                                                    | a7::s9 ->
                                                                    (* If this appears, you're using Ascii internals. Please don't *)
 (fun f c ->
  let n = Char.code c in
  let h i = (n land (1 lsl i)) <> 0 in
  f (h 0) (h 1) (h 2) (h 3) (h 4) (h 5) (h 6) (h 7))
                                                                    (fun b63 b64 b65 b66 b67 b68 b69 b70 ->
                                                                    if b63
                                                                    then 
                                                                    if b64
                                                                    then None
                                                                    else 
                                                                    if b65
                                                                    then None
                                                                    else 
                                                                    if b66
                                                                    then None
                                                                    else 
                                                                    if b67
                                                                    then None
                                                                    else 
                                                                    if b68
                                                                    then 
                                                                    if b69
                                                                    then 
                                                                    if b70
                                                                    then None
                                                                    else 
                                                                    (match s9 with
                                                                    | [] ->
                                                                    None
                                                                    | a8::s10 ->
                                                                    (* If this appears, you're using Ascii internals. Please don't *)
 (fun f c ->
  let n = Char.code c in
  let h i = (n land (1 lsl i)) <> 0 in
  f (h 0) (h 1) (h 2) (h 3) (h 4) (h 5) (h 6) (h 7))
                                                                    (fun b71 b72 b73 b74 b75 b76 b77 b78 ->
                                                                    if b71
                                                                    then 
                                                                    if b72
                                                                    then 
                                                                    if b73
                                                                    then 
                                                                    if b74
                                                                    then 
                                                                    if b75
                                                                    then None
                                                                    else 
                                                                    if b76
                                                                    then 
                                                                    if b77
                                                                    then 
                                                                    if b78
                                                                    then None
                                                                    else 
                                                                    (match s10 with
                                                                    | [] ->
                                                                    None
                                                                    | a9::s11 ->
                                                                    (* If this appears, you're using Ascii internals. Please don't *)
 (fun f c ->
  let n = Char.code c in
  let h i = (n land (1 lsl i)) <> 0 in
  f (h 0) (h 1) (h 2) (h 3) (h 4) (h 5) (h 6) (h 7))
                                                                    (fun b79 b80 b81 b82 b83 b84 b85 b86 ->
                                                                    if b79
                                                                    then None
                                                                    else 
                                                                    if b80
                                                                    then None
                                                                    else 
                                                                    if b81
                                                                    then 
                                                                    if b82
                                                                    then None
                                                                    else 
                                                                    if b83
                                                                    then None
                                                                    else 
                                                                    if b84
                                                                    then 
                                                                    if b85
                                                                    then 
                                                                    if b86
                                                                    then None
                                                                    else 
                                                                    (match s11 with
                                                                    | [] ->
                                                                    Some
                                                                    BeCmsMiniaod
                                                                    | _::_ ->
                                                                    None)
                                                                    else None
                                                                    else None
                                                                    else None)
                                                                    a9)
                                                                    else None
                                                                    else None
                                                                    else None
                                                                    else None
                                                                    else None
                                                                    else None)
                                                                    a8)
                                                                    else None
                                                                    else None
                                                                    else None)
                                                                    a7)
                                                                    else None
                                                                    else None
                                                                    else None
                                                                    else None)
                                                                    a6)
                                                                    else None
                                                                    else None
                                                                    else None
                                                                    else None
                                                                    else None)
                                                                    a5)
                                                                    else None
                                                                    else None
                                                                    else None
                                                                    else None)
                                                                    a4)
                                                                    else None
                                                                    else None
                                                                    else None
                                                                    else 
                                                                    if b34
                                                                    then None
                                                                    else 
                                                                    if b35
                                                                    then None
                                                                    else 
                                                                    if b36
                                                                    then 
                                                                    if b37
                                                                    then 
                                                                    if b38
                                                                    then None
                                                                    else 
                                                                    (match s5 with
                                                                    | [] ->
                                                                    None
                                                                    | a4::s6 ->
                                                                    (* If this appears, you're using Ascii internals. Please don't *)
 (fun f c ->
  let n = Char.code c in
  let h i = (n land (1 lsl i)) <> 0 in
  f (h 0) (h 1) (h 2) (h 3) (h 4) (h 5) (h 6) (h 7))
                                                                    (fun b39 b40 b41 b42 b43 b44 b45 b46 ->
                                                                    if b39
                                                                    then 
                                                                    if b40
                                                                    then 
                                                                    if b41
                                                                    then 
                                                                    if b42
                                                                    then 
                                                                    if b43
                                                                    then None
                                                                    else 
                                                                    if b44
                                                                    then 
                                                                    if b45
                                                                    then 
                                                                    if b46
                                                                    then None
                                                                    else 
                                                                    (match s6 with
                                                                    | [] ->
                                                                    None
                                                                    | a5::s7 ->
                                                                    (* If this appears, you're using Ascii internals. Please don't *)
 (fun f c ->
  let n = Char.code c in
  let h i = (n land (1 lsl i)) <> 0 in
  f (h 0) (h 1) (h 2) (h 3) (h 4) (h 5) (h 6) (h 7))
                                                                    (fun b47 b48 b49 b50 b51 b52 b53 b54 ->
                                                                    if b47
                                                                    then None
                                                                    else 
                                                                    if b48
                                                                    then None
                                                                    else 
                                                                    if b49
                                                                    then 
                                                                    if b50
                                                                    then None
                                                                    else 
                                                                    if b51
                                                                    then None
                                                                    else 
                                                                    if b52
                                                                    then 
                                                                    if b53
                                                                    then 
                                                                    if b54
                                                                    then None
                                                                    else 
                                                                    (match s7 with
                                                                    | [] ->
                                                                    Some
                                                                    BeCmsAod
                                                                    | _::_ ->
                                                                    None)
                                                                    else None
                                                                    else None
                                                                    else None)
                                                                    a5)
                                                                    else None
                                                                    else None
                                                                    else None
                                                                    else None
                                                                    else None
                                                                    else None)
                                                                    a4)
                                                                    else None
                                                                    else None
                                                                    else None)
                                                                    a3)
                                                                    else None
                                                                    else None
                                                                    else None
                                                                    else None
                                                                    else None
                                                                    else None)
                                                                    a2)
                                                                    else None
                                                                    else None
                                                                    else None
                                                                    else None
                                                                    else None)
                                                                    a1)
                                                                    else None
                                                                    else None
                                                                   else None
                                                              else None
                                                    else None)
                                                    a0)
                                     else None
                                else None
            else if b1
                 then None
                 else if b2
                      then None
                      else if b3
                           then None
                           else if b4
                                then if b5
                                     then if b6
                                          then None
                                          else (match s1 with
                                                | [] -> None
                                                | a0::s2 ->
                                                  (* If this appears, you're using Ascii internals. Please don't *)
 (fun f c ->
  let n = Char.code c in
  let h i = (n land (1 lsl i)) <> 0 in
  f (h 0) (h 1) (h 2) (h 3) (h 4) (h 5) (h 6) (h 7))
                                                    (fun b7 b8 b9 b10 b11 b12 b13 b14 ->
                                                    if b7
                                                    then None
                                                    else if b8
                                                         then None
                                                         else if b9
                                                              then if b10
                                                                   then None
                                                                   else 
                                                                    if b11
                                                                    then 
                                                                    if b12
                                                                    then 
                                                                    if b13
                                                                    then 
                                                                    if b14
                                                                    then None
                                                                    else 
                                                                    (match s2 with
                                                                    | [] ->
                                                                    None
                                                                    | a1::s3 ->
                                                                    (* If this appears, you're using Ascii internals. Please don't *)
 (fun f c ->
  let n = Char.code c in
  let h i = (n land (1 lsl i)) <> 0 in
  f (h 0) (h 1) (h 2) (h 3) (h 4) (h 5) (h 6) (h 7))
                                                                    (fun b15 b16 b17 b18 b19 b20 b21 b22 ->
                                                                    if b15
                                                                    then None
                                                                    else 
                                                                    if b16
                                                                    then None
                                                                    else 
                                                                    if b17
                                                                    then 
                                                                    if b18
                                                                    then 
                                                                    if b19
                                                                    then None
                                                                    else 
                                                                    if b20
                                                                    then 
                                                                    if b21
                                                                    then 
                                                                    if b22
                                                                    then None
                                                                    else 
                                                                    (match s3 with
                                                                    | [] ->
                                                                    None
                                                                    | a2::s4 ->
                                                                    (* If this appears, you're using Ascii internals. Please don't *)
 (fun f c ->
  let n = Char.code c in
  let h i = (n land (1 lsl i)) <> 0 in
  f (h 0) (h 1) (h 2) (h 3) (h 4) (h 5) (h 6) (h 7))
                                                                    (fun b23 b24 b25 b26 b27 b28 b29 b30 ->
                                                                    if b23
                                                                    then 
                                                                    if b24
                                                                    then None
                                                                    else 
                                                                    if b25
                                                                    then None
                                                                    else 
                                                                    if b26
                                                                    then None
                                                                    else 
                                                                    if b27
                                                                    then None
                                                                    else 
                                                                    if b28
                                                                    then 
                                                                    if b29
                                                                    then 
                                                                    if b30
                                                                    then None
                                                                    else 
                                                                    (match s4 with
                                                                    | [] ->
                                                                    None
                                                                    | a3::s5 ->
                                                                    (* If this appears, you're using Ascii internals. Please don't *)
 (fun f c ->
  let n = Char.code c in
  let h i = (n land (1 lsl i)) <> 0 in
  f (h 0) (h 1) (h 2) (h 3) (h 4) (h 5) (h 6) (h 7))
                                                                    (fun b31 b32 b33 b34 b35 b36 b37 b38 ->
                                                                    if b31
                                                                    then 
                                                                    if b32
                                                                    then 
                                                                    if b33
                                                                    then None
                                                                    else 
                                                                    if b34
                                                                    then None
                                                                    else 
                                                                    if b35
                                                                    then 
                                                                    if b36
                                                                    then 
                                                                    if b37
                                                                    then 
                                                                    if b38
                                                                    then None
                                                                    else 
                                                                    (match s5 with
                                                                    | [] ->
                                                                    Some
                                                                    BeAtlas
                                                                    | _::_ ->
                                                                    None)
                                                                    else None
                                                                    else None
                                                                    else None
                                                                    else None
                                                                    else None)
                                                                    a3)
                                                                    else None
                                                                    else None
                                                                    else None)
                                                                    a2)
                                                                    else None
                                                                    else None
                                                                    else None
                                                                    else None)
                                                                    a1)
                                                                    else None
                                                                    else None
                                                                    else None
                                                              else None)
                                                    a0)
                                     else None
                                else None
       else None)
       a)
| SList _ -> None

(** val d_colrep_fuel : nat -> sexp -> colrep option **)

let rec d_colrep_fuel fuel s =
  match fuel with
  | O -> None
  | S f ->
    (match s with
     | SAtom _ -> None
     | SList l ->
       (match l with
        | [] -> None
        | s0 :: l0 ->
          (match s0 with
           | SAtom s1 ->
             (match s1 with
              | [] -> None
              | a::s2 ->
                (* If this appears, you're using Ascii internals. Please don't *)
 (fun f c ->
  let n = Char.code c in
  let h i = (n land (1 lsl i)) <> 0 in
  f (h 0) (h 1) (h 2) (h 3) (h 4) (h 5) (h 6) (h 7))
                  (fun b0 b1 b2 b3 b4 b5 b6 b7 ->
                  if b0
                  then if b1
                       then if b2
                            then None
                            else if b3
                                 then None
                                 else if b4
                                      then if b5
                                           then if b6
                                                then if b7
                                                     then None
                                                     else (match s2 with
                                                           | [] -> None
                                                           | a0::s3 ->
                                                             (* If this appears, you're using Ascii internals. Please don't *)
 (fun f c ->
  let n = Char.code c in
  let h i = (n land (1 lsl i)) <> 0 in
  f (h 0) (h 1) (h 2) (h 3) (h 4) (h 5) (h 6) (h 7))
                                                               (fun b8 b9 b10 b11 b12 b13 b14 b15 ->
                                                               if b8
                                                               then if b9
                                                                    then None
                                                                    else 
                                                                    if b10
                                                                    then 
                                                                    if b11
                                                                    then None
                                                                    else 
                                                                    if b12
                                                                    then None
                                                                    else 
                                                                    if b13
                                                                    then 
                                                                    if b14
                                                                    then 
                                                                    if b15
                                                                    then None
                                                                    else 
                                                                    (match s3 with
                                                                    | [] ->
                                                                    None
                                                                    | a1::s4 ->
                                                                    (* If this appears, you're using Ascii internals. Please don't *)
 (fun f c ->
  let n = Char.code c in
  let h i = (n land (1 lsl i)) <> 0 in
  f (h 0) (h 1) (h 2) (h 3) (h 4) (h 5) (h 6) (h 7))
                                                                    (fun b b16 b17 b18 b19 b20 b21 b22 ->
                                                                    if b
                                                                    then 
                                                                    if b16
                                                                    then None
                                                                    else 
                                                                    if b17
                                                                    then None
                                                                    else 
                                                                    if b18
                                                                    then None
                                                                    else 
                                                                    if b19
                                                                    then 
                                                                    if b20
                                                                    then 
                                                                    if b21
                                                                    then 
                                                                    if b22
                                                                    then None
                                                                    else 
                                                                    (match s4 with
                                                                    | [] ->
                                                                    (match l0 with
                                                                    | [] ->
                                                                    None
                                                                    | i :: l1 ->
                                                                    (match l1 with
                                                                    | [] ->
                                                                    option_map
                                                                    (fun x ->
                                                                    KSeq x)
                                                                    (d_colrep_fuel
                                                                    f i)
                                                                    | _ :: _ ->
                                                                    None))
                                                                    | _::_ ->
                                                                    None)
                                                                    else None
                                                                    else None
                                                                    else None
                                                                    else None)
                                                                    a1)
                                                                    else None
                                                                    else None
                                                                    else None
                                                               else if b9
                                                                    then None
                                                                    else 
                                                                    if b10
                                                                    then 
                                                                    if b11
                                                                    then None
                                                                    else 
                                                                    if b12
                                                                    then 
                                                                    if b13
                                                                    then 
                                                                    if b14
                                                                    then 
                                                                    if b15
                                                                    then None
                                                                    else 
                                                                    (match s3 with
                                                                    | [] ->
                                                                    None
                                                                    | a1::s4 ->
                                                                    (* If this appears, you're using Ascii internals. Please don't *)
 (fun f c ->
  let n = Char.code c in
  let h i = (n land (1 lsl i)) <> 0 in
  f (h 0) (h 1) (h 2) (h 3) (h 4) (h 5) (h 6) (h 7))
                                                                    (fun b16 b17 b18 b19 b20 b21 b22 b23 ->
                                                                    if b16
                                                                    then None
                                                                    else 
                                                                    if b17
                                                                    then 
                                                                    if b18
                                                                    then None
                                                                    else 
                                                                    if b19
                                                                    then None
                                                                    else 
                                                                    if b20
                                                                    then 
                                                                    if b21
                                                                    then 
                                                                    if b22
                                                                    then 
                                                                    if b23
                                                                    then None
                                                                    else 
                                                                    (match s4 with
                                                                    | [] ->
                                                                    None
                                                                    | a2::s5 ->
                                                                    (* If this appears, you're using Ascii internals. Please don't *)
 (fun f c ->
  let n = Char.code c in
  let h i = (n land (1 lsl i)) <> 0 in
  f (h 0) (h 1) (h 2) (h 3) (h 4) (h 5) (h 6) (h 7))
                                                                    (fun b24 b25 b26 b27 b28 b29 b30 b31 ->
                                                                    if b24
                                                                    then 
                                                                    if b25
                                                                    then None
                                                                    else 
                                                                    if b26
                                                                    then 
                                                                    if b27
                                                                    then None
                                                                    else 
                                                                    if b28
                                                                    then 
                                                                    if b29
                                                                    then 
                                                                    if b30
                                                                    then 
                                                                    if b31
                                                                    then None
                                                                    else 
                                                                    (match s5 with
                                                                    | [] ->
                                                                    None
                                                                    | a3::s6 ->
                                                                    (* If this appears, you're using Ascii internals. Please don't *)
 (fun f c ->
  let n = Char.code c in
  let h i = (n land (1 lsl i)) <> 0 in
  f (h 0) (h 1) (h 2) (h 3) (h 4) (h 5) (h 6) (h 7))
                                                                    (fun b32 b33 b34 b35 b36 b37 b38 b39 ->
                                                                    if b32
                                                                    then 
                                                                    if b33
                                                                    then 
                                                                    if b34
                                                                    then None
                                                                    else 
                                                                    if b35
                                                                    then None
                                                                    else 
                                                                    if b36
                                                                    then None
                                                                    else 
                                                                    if b37
                                                                    then 
                                                                    if b38
                                                                    then 
                                                                    if b39
                                                                    then None
                                                                    else 
                                                                    (match s6 with
                                                                    | [] ->
                                                                    None
                                                                    | a4::s7 ->
                                                                    (* If this appears, you're using Ascii internals. Please don't *)
 (fun f c ->
  let n = Char.code c in
  let h i = (n land (1 lsl i)) <> 0 in
  f (h 0) (h 1) (h 2) (h 3) (h 4) (h 5) (h 6) (h 7))
                                                                    (fun b40 b41 b42 b43 b44 b45 b46 b47 ->
                                                                    if b40
                                                                    then None
                                                                    else 
                                                                    if b41
                                                                    then None
                                                                    else 
                                                                    if b42
                                                                    then 
                                                                    if b43
                                                                    then None
                                                                    else 
                                                                    if b44
                                                                    then 
                                                                    if b45
                                                                    then 
                                                                    if b46
                                                                    then 
                                                                    if b47
                                                                    then None
                                                                    else 
                                                                    (match s7 with
                                                                    | [] ->
                                                                    (match l0 with
                                                                    | [] ->
                                                                    None
                                                                    | b :: l1 ->
                                                                    (match l1 with
                                                                    | [] ->
                                                                    option_map
                                                                    (fun x ->
                                                                    KStruct
                                                                    x)
                                                                    (d_bool b)
                                                                    | _ :: _ ->
                                                                    None))
                                                                    | _::_ ->
                                                                    None)
                                                                    else None
                                                                    else None
                                                                    else None
                                                                    else None)
                                                                    a4)
                                                                    else None
                                                                    else None
                                                                    else None
                                                                    else None)
                                                                    a3)
                                                                    else None
                                                                    else None
                                                                    else None
                                                                    else None
                                                                    else None)
                                                                    a2)
                                                                    else None
                                                                    else None
                                                                    else None
                                                                    else None)
                                                                    a1)
                                                                    else None
                                                                    else None
                                                                    else None
                                                                    else None)
                                                               a0)
                                                else None
                                           else None
                                      else if b5
                                           then if b6
                                                then if b7
                                                     then None
                                                     else (match s2 with
                                                           | [] -> None
                                                           | a0::s3 ->
                                                             (* If this appears, you're using Ascii internals. Please don't *)
 (fun f c ->
  let n = Char.code c in
  let h i = (n land (1 lsl i)) <> 0 in
  f (h 0) (h 1) (h 2) (h 3) (h 4) (h 5) (h 6) (h 7))
                                                               (fun b b8 b9 b10 b11 b12 b13 b14 ->
                                                               if b
                                                               then if b8
                                                                    then 
                                                                    if b9
                                                                    then 
                                                                    if b10
                                                                    then 
                                                                    if b11
                                                                    then None
                                                                    else 
                                                                    if b12
                                                                    then 
                                                                    if b13
                                                                    then 
                                                                    if b14
                                                                    then None
                                                                    else 
                                                                    (match s3 with
                                                                    | [] ->
                                                                    None
                                                                    | a1::s4 ->
                                                                    (* If this appears, you're using Ascii internals. Please don't *)
 (fun f c ->
  let n = Char.code c in
  let h i = (n land (1 lsl i)) <> 0 in
  f (h 0) (h 1) (h 2) (h 3) (h 4) (h 5) (h 6) (h 7))
                                                                    (fun b15 b16 b17 b18 b19 b20 b21 b22 ->
                                                                    if b15
                                                                    then None
                                                                    else 
                                                                    if b16
                                                                    then None
                                                                    else 
                                                                    if b17
                                                                    then 
                                                                    if b18
                                                                    then 
                                                                    if b19
                                                                    then None
                                                                    else 
                                                                    if b20
                                                                    then 
                                                                    if b21
                                                                    then 
                                                                    if b22
                                                                    then None
                                                                    else 
                                                                    (match s4 with
                                                                    | [] ->
                                                                    None
                                                                    | a2::s5 ->
                                                                    (* If this appears, you're using Ascii internals. Please don't *)
 (fun f c ->
  let n = Char.code c in
  let h i = (n land (1 lsl i)) <> 0 in
  f (h 0) (h 1) (h 2) (h 3) (h 4) (h 5) (h 6) (h 7))
                                                                    (fun b23 b24 b25 b26 b27 b28 b29 b30 ->
                                                                    if b23
                                                                    then None
                                                                    else 
                                                                    if b24
                                                                    then None
                                                                    else 
                                                                    if b25
                                                                    then 
                                                                    if b26
                                                                    then 
                                                                    if b27
                                                                    then None
                                                                    else 
                                                                    if b28
                                                                    then 
                                                                    if b29
                                                                    then 
                                                                    if b30
                                                                    then None
                                                                    else 
                                                                    (match s5 with
                                                                    | [] ->
                                                                    (match l0 with
                                                                    | [] ->
                                                                    None
                                                                    | s6 :: l1 ->
                                                                    (match s6 with
                                                                    | SAtom ty ->
                                                                    (match l1 with
                                                                    | [] ->
                                                                    Some
                                                                    (KColl ty)
                                                                    | _ :: _ ->
                                                                    None)
                                                                    | SList _ ->
                                                                    None))
                                                                    | _::_ ->
                                                                    None)
                                                                    else None
                                                                    else None
                                                                    else None
                                                                    else None)
                                                                    a2)
                                                                    else None
                                                                    else None
                                                                    else None
                                                                    else None)
                                                                    a1)
                                                                    else None
                                                                    else None
                                                                    else None
                                                                    else None
                                                                    else None
                                                               else None)
                                                               a0)
                                                else None
                                           else None
                       else None
                  else if b1
                       then if b2
                            then if b3
                                 then None
                                 else if b4
                                      then if b5
                                           then if b6
                                                then if b7
                                                     then None
                                                     else (match s2 with
                                                           | [] -> None
                                                           | a0::s3 ->
                                                             (* If this appears, you're using Ascii internals. Please don't *)
 (fun f c ->
  let n = Char.code c in
  let h i = (n land (1 lsl i)) <> 0 in
  f (h 0) (h 1) (h 2) (h 3) (h 4) (h 5) (h 6) (h 7))
                                                               (fun b b8 b9 b10 b11 b12 b13 b14 ->
                                                               if b
                                                               then if b8
                                                                    then None
                                                                    else 
                                                                    if b9
                                                                    then None
                                                                    else 
                                                                    if b10
                                                                    then None
                                                                    else 
                                                                    if b11
                                                                    then None
                                                                    else 
                                                                    if b12
                                                                    then 
                                                                    if b13
                                                                    then 
                                                                    if b14
                                                                    then None
                                                                    else 
                                                                    (match s3 with
                                                                    | [] ->
                                                                    None
                                                                    | a1::s4 ->
                                                                    (* If this appears, you're using Ascii internals. Please don't *)
 (fun f c ->
  let n = Char.code c in
  let h i = (n land (1 lsl i)) <> 0 in
  f (h 0) (h 1) (h 2) (h 3) (h 4) (h 5) (h 6) (h 7))
                                                                    (fun b15 b16 b17 b18 b19 b20 b21 b22 ->
                                                                    if b15
                                                                    then None
                                                                    else 
                                                                    if b16
                                                                    then None
                                                                    else 
                                                                    if b17
                                                                    then 
                                                                    if b18
                                                                    then 
                                                                    if b19
                                                                    then None
                                                                    else 
                                                                    if b20
                                                                    then 
                                                                    if b21
                                                                    then 
                                                                    if b22
                                                                    then None
                                                                    else 
                                                                    (match s4 with
                                                                    | [] ->
                                                                    (match l0 with
                                                                    | [] ->
                                                                    None
                                                                    | s5 :: l1 ->
                                                                    (match s5 with
                                                                    | SAtom ty ->
                                                                    (match l1 with
                                                                    | [] ->
                                                                    None
                                                                    | s6 :: l2 ->
                                                                    (match s6 with
                                                                    | SAtom _ ->
                                                                    None
                                                                    | SList l3 ->
                                                                    (match l3 with
                                                                    | [] ->
                                                                    (match l2 with
                                                                    | [] ->
                                                                    Some
                                                                    (KVal
                                                                    (ty,
                                                                    None))
                                                                    | _ :: _ ->
                                                                    None)
                                                                    | s7 :: l4 ->
                                                                    (match s7 with
                                                                    | SAtom t ->
                                                                    (match l4 with
                                                                    | [] ->
                                                                    (match l2 with
                                                                    | [] ->
                                                                    Some
                                                                    (KVal
                                                                    (ty,
                                                                    (Some t)))
                                                                    | _ :: _ ->
                                                                    None)
                                                                    | _ :: _ ->
                                                                    None)
                                                                    | SList _ ->
                                                                    None))))
                                                                    | SList _ ->
                                                                    None))
                                                                    | _::_ ->
                                                                    None)
                                                                    else None
                                                                    else None
                                                                    else None
                                                                    else None)
                                                                    a1)
                                                                    else None
                                                                    else None
                                                               else None)
                                                               a0)
                                                else None
                                           else None
                                      else None
                            else None
                       else None)
                  a)
           | SList _ -> None)))

(** val sexp_size : sexp -> nat **)

let rec sexp_size = function
| SAtom _ -> S O
| SList l -> S (fold_right (fun x a -> add (sexp_size x) a) O l)

(** val d_colrep : sexp -> colrep option **)

let d_colrep s =
  d_colrep_fuel (sexp_size s) s

(** val d_row : sexp -> rowshape option **)

let d_row = function
| SAtom _ -> None
| SList l ->
  (match l with
   | [] -> None
   | s0 :: l0 ->
     (match s0 with
      | SAtom s1 ->
        (match s1 with
         | [] -> None
         | a::s2 ->
           (* If this appears, you're using Ascii internals. Please don't *)
 (fun f c ->
  let n = Char.code c in
  let h i = (n land (1 lsl i)) <> 0 in
  f (h 0) (h 1) (h 2) (h 3) (h 4) (h 5) (h 6) (h 7))
             (fun b b0 b1 b2 b3 b4 b5 b6 ->
             if b
             then if b0
                  then if b1
                       then None
                       else if b2
                            then None
                            else if b3
                                 then if b4
                                      then if b5
                                           then if b6
                                                then None
                                                else (match s2 with
                                                      | [] -> None
                                                      | a0::s3 ->
                                                        (* If this appears, you're using Ascii internals. Please don't *)
 (fun f c ->
  let n = Char.code c in
  let h i = (n land (1 lsl i)) <> 0 in
  f (h 0) (h 1) (h 2) (h 3) (h 4) (h 5) (h 6) (h 7))
                                                          (fun b7 b8 b9 b10 b11 b12 b13 b14 ->
                                                          if b7
                                                          then if b8
                                                               then None
                                                               else if b9
                                                                    then None
                                                                    else 
                                                                    if b10
                                                                    then 
                                                                    if b11
                                                                    then None
                                                                    else 
                                                                    if b12
                                                                    then 
                                                                    if b13
                                                                    then 
                                                                    if b14
                                                                    then None
                                                                    else 
                                                                    (match s3 with
                                                                    | [] ->
                                                                    None
                                                                    | a1::s4 ->
                                                                    (* If this appears, you're using Ascii internals. Please don't *)
 (fun f c ->
  let n = Char.code c in
  let h i = (n land (1 lsl i)) <> 0 in
  f (h 0) (h 1) (h 2) (h 3) (h 4) (h 5) (h 6) (h 7))
                                                                    (fun b15 b16 b17 b18 b19 b20 b21 b22 ->
                                                                    if b15
                                                                    then None
                                                                    else 
                                                                    if b16
                                                                    then 
                                                                    if b17
                                                                    then 
                                                                    if b18
                                                                    then 
                                                                    if b19
                                                                    then None
                                                                    else 
                                                                    if b20
                                                                    then 
                                                                    if b21
                                                                    then 
                                                                    if b22
                                                                    then None
                                                                    else 
                                                                    (match s4 with
                                                                    | [] ->
                                                                    None
                                                                    | a2::s5 ->
                                                                    (* If this appears, you're using Ascii internals. Please don't *)
 (fun f c ->
  let n = Char.code c in
  let h i = (n land (1 lsl i)) <> 0 in
  f (h 0) (h 1) (h 2) (h 3) (h 4) (h 5) (h 6) (h 7))
                                                                    (fun b23 b24 b25 b26 b27 b28 b29 b30 ->
                                                                    if b23
                                                                    then 
                                                                    if b24
                                                                    then 
                                                                    if b25
                                                                    then 
                                                                    if b26
                                                                    then None
                                                                    else 
                                                                    if b27
                                                                    then None
                                                                    else 
                                                                    if b28
                                                                    then 
                                                                    if b29
                                                                    then 
                                                                    if b30
                                                                    then None
                                                                    else 
                                                                    (match s5 with
                                                                    | [] ->
                                                                    None
                                                                    | a3::s6 ->
                                                                    (* If this appears, you're using Ascii internals. Please don't *)
 (fun f c ->
  let n = Char.code c in
  let h i = (n land (1 lsl i)) <> 0 in
  f (h 0) (h 1) (h 2) (h 3) (h 4) (h 5) (h 6) (h 7))
                                                                    (fun b31 b32 b33 b34 b35 b36 b37 b38 ->
                                                                    if b31
                                                                    then None
                                                                    else 
                                                                    if b32
                                                                    then None
                                                                    else 
                                                                    if b33
                                                                    then 
                                                                    if b34
                                                                    then 
                                                                    if b35
                                                                    then None
                                                                    else 
                                                                    if b36
                                                                    then 
                                                                    if b37
                                                                    then 
                                                                    if b38
                                                                    then None
                                                                    else 
                                                                    (match s6 with
                                                                    | [] ->
                                                                    None
                                                                    | a4::s7 ->
                                                                    (* If this appears, you're using Ascii internals. Please don't *)
 (fun f c ->
  let n = Char.code c in
  let h i = (n land (1 lsl i)) <> 0 in
  f (h 0) (h 1) (h 2) (h 3) (h 4) (h 5) (h 6) (h 7))
                                                                    (fun b39 b40 b41 b42 b43 b44 b45 b46 ->
                                                                    if b39
                                                                    then 
                                                                    if b40
                                                                    then None
                                                                    else 
                                                                    if b41
                                                                    then 
                                                                    if b42
                                                                    then None
                                                                    else 
                                                                    if b43
                                                                    then None
                                                                    else 
                                                                    if b44
                                                                    then 
                                                                    if b45
                                                                    then 
                                                                    if b46
                                                                    then None
                                                                    else 
                                                                    (match s7 with
                                                                    | [] ->
                                                                    (match l0 with
                                                                    | [] ->
                                                                    None
                                                                    | c :: l1 ->
                                                                    (match l1 with
                                                                    | [] ->
                                                                    option_map
                                                                    (fun x ->
                                                                    RSingle
                                                                    x)
                                                                    (d_colrep
                                                                    c)
                                                                    | _ :: _ ->
                                                                    None))
                                                                    | _::_ ->
                                                                    None)
                                                                    else None
                                                                    else None
                                                                    else None
                                                                    else None)
                                                                    a4)
                                                                    else None
                                                                    else None
                                                                    else None
                                                                    else None)
                                                                    a3)
                                                                    else None
                                                                    else None
                                                                    else None
                                                                    else None
                                                                    else None)
                                                                    a2)
                                                                    else None
                                                                    else None
                                                                    else None
                                                                    else None
                                                                    else None)
                                                                    a1)
                                                                    else None
                                                                    else None
                                                                    else None
                                                          else None)
                                                          a0)
                                           else None
                                      else None
                                 else None
                  else None
             else if b0
                  then None
                  else if b1
                       then if b2
                            then None
                            else if b3
                                 then if b4
                                      then if b5
                                           then if b6
                                                then None
                                                else (match s2 with
                                                      | [] -> None
                                                      | a0::s3 ->
                                                        (* If this appears, you're using Ascii internals. Please don't *)
 (fun f c ->
  let n = Char.code c in
  let h i = (n land (1 lsl i)) <> 0 in
  f (h 0) (h 1) (h 2) (h 3) (h 4) (h 5) (h 6) (h 7))
                                                          (fun b7 b8 b9 b10 b11 b12 b13 b14 ->
                                                          if b7
                                                          then if b8
                                                               then None
                                                               else if b9
                                                                    then 
                                                                    if b10
                                                                    then None
                                                                    else 
                                                                    if b11
                                                                    then 
                                                                    if b12
                                                                    then 
                                                                    if b13
                                                                    then 
                                                                    if b14
                                                                    then None
                                                                    else 
                                                                    (match s3 with
                                                                    | [] ->
                                                                    None
                                                                    | a1::s4 ->
                                                                    (* If this appears, you're using Ascii internals. Please don't *)
 (fun f c ->
  let n = Char.code c in
  let h i = (n land (1 lsl i)) <> 0 in
  f (h 0) (h 1) (h 2) (h 3) (h 4) (h 5) (h 6) (h 7))
                                                                    (fun b15 b16 b17 b18 b19 b20 b21 b22 ->
                                                                    if b15
                                                                    then None
                                                                    else 
                                                                    if b16
                                                                    then None
                                                                    else 
                                                                    if b17
                                                                    then None
                                                                    else 
                                                                    if b18
                                                                    then None
                                                                    else 
                                                                    if b19
                                                                    then 
                                                                    if b20
                                                                    then 
                                                                    if b21
                                                                    then 
                                                                    if b22
                                                                    then None
                                                                    else 
                                                                    (match s4 with
                                                                    | [] ->
                                                                    None
                                                                    | a2::s5 ->
                                                                    (* If this appears, you're using Ascii internals. Please don't *)
 (fun f c ->
  let n = Char.code c in
  let h i = (n land (1 lsl i)) <> 0 in
  f (h 0) (h 1) (h 2) (h 3) (h 4) (h 5) (h 6) (h 7))
                                                                    (fun b23 b24 b25 b26 b27 b28 b29 b30 ->
                                                                    if b23
                                                                    then None
                                                                    else 
                                                                    if b24
                                                                    then None
                                                                    else 
                                                                    if b25
                                                                    then 
                                                                    if b26
                                                                    then 
                                                                    if b27
                                                                    then None
                                                                    else 
                                                                    if b28
                                                                    then 
                                                                    if b29
                                                                    then 
                                                                    if b30
                                                                    then None
                                                                    else 
                                                                    (match s5 with
                                                                    | [] ->
                                                                    None
                                                                    | a3::s6 ->
                                                                    (* If this appears, you're using Ascii internals. Please don't *)
 (fun f c ->
  let n = Char.code c in
  let h i = (n land (1 lsl i)) <> 0 in
  f (h 0) (h 1) (h 2) (h 3) (h 4) (h 5) (h 6) (h 7))
                                                                    (fun b31 b32 b33 b34 b35 b36 b37 b38 ->
                                                                    if b31
                                                                    then 
                                                                    if b32
                                                                    then None
                                                                    else 
                                                                    if b33
                                                                    then 
                                                                    if b34
                                                                    then None
                                                                    else 
                                                                    if b35
                                                                    then None
                                                                    else 
                                                                    if b36
                                                                    then 
                                                                    if b37
                                                                    then 
                                                                    if b38
                                                                    then None
                                                                    else 
                                                                    (match s6 with
                                                                    | [] ->
                                                                    (match l0 with
                                                                    | [] ->
                                                                    None
                                                                    | s7 :: l1 ->
                                                                    (match s7 with
                                                                    | SAtom _ ->
                                                                    None
                                                                    | SList cols ->
                                                                    (match l1 with
                                                                    | [] ->
                                                                    option_map
                                                                    (fun x ->
                                                                    RTuple x)
                                                                    (d_list
                                                                    d_colrep
                                                                    cols)
                                                                    | _ :: _ ->
                                                                    None)))
                                                                    | _::_ ->
                                                                    None)
                                                                    else None
                                                                    else None
                                                                    else None
                                                                    else None)
                                                                    a3)
                                                                    else None
                                                                    else None
                                                                    else None
                                                                    else None)
                                                                    a2)
                                                                    else None
                                                                    else None
                                                                    else None)
                                                                    a1)
                                                                    else None
                                                                    else None
                                                                    else None
                                                                    else None
                                                          else None)
                                                          a0)
                                           else None
                                      else None
                                 else if b4
                                      then if b5
                                           then if b6
                                                then None
                                                else (match s2 with
                                                      | [] -> None
                                                      | a0::s3 ->
                                                        (* If this appears, you're using Ascii internals. Please don't *)
 (fun f c ->
  let n = Char.code c in
  let h i = (n land (1 lsl i)) <> 0 in
  f (h 0) (h 1) (h 2) (h 3) (h 4) (h 5) (h 6) (h 7))
                                                          (fun b7 b8 b9 b10 b11 b12 b13 b14 ->
                                                          if b7
                                                          then if b8
                                                               then None
                                                               else if b9
                                                                    then None
                                                                    else 
                                                                    if b10
                                                                    then 
                                                                    if b11
                                                                    then None
                                                                    else 
                                                                    if b12
                                                                    then 
                                                                    if b13
                                                                    then 
                                                                    if b14
                                                                    then None
                                                                    else 
                                                                    (match s3 with
                                                                    | [] ->
                                                                    None
                                                                    | a1::s4 ->
                                                                    (* If this appears, you're using Ascii internals. Please don't *)
 (fun f c ->
  let n = Char.code c in
  let h i = (n land (1 lsl i)) <> 0 in
  f (h 0) (h 1) (h 2) (h 3) (h 4) (h 5) (h 6) (h 7))
                                                                    (fun b15 b16 b17 b18 b19 b20 b21 b22 ->
                                                                    if b15
                                                                    then 
                                                                    if b16
                                                                    then 
                                                                    if b17
                                                                    then None
                                                                    else 
                                                                    if b18
                                                                    then None
                                                                    else 
                                                                    if b19
                                                                    then None
                                                                    else 
                                                                    if b20
                                                                    then 
                                                                    if b21
                                                                    then 
                                                                    if b22
                                                                    then None
                                                                    else 
                                                                    (match s4 with
                                                                    | [] ->
                                                                    None
                                                                    | a2::s5 ->
                                                                    (* If this appears, you're using Ascii internals. Please don't *)
 (fun f c ->
  let n = Char.code c in
  let h i = (n land (1 lsl i)) <> 0 in
  f (h 0) (h 1) (h 2) (h 3) (h 4) (h 5) (h 6) (h 7))
                                                                    (fun b23 b24 b25 b26 b27 b28 b29 b30 ->
                                                                    if b23
                                                                    then None
                                                                    else 
                                                                    if b24
                                                                    then None
                                                                    else 
                                                                    if b25
                                                                    then 
                                                                    if b26
                                                                    then None
                                                                    else 
                                                                    if b27
                                                                    then 
                                                                    if b28
                                                                    then 
                                                                    if b29
                                                                    then 
                                                                    if b30
                                                                    then None
                                                                    else 
                                                                    (match s5 with
                                                                    | [] ->
                                                                    (match l0 with
                                                                    | [] ->
                                                                    None
                                                                    | s6 :: l1 ->
                                                                    (match s6 with
                                                                    | SAtom _ ->
                                                                    None
                                                                    | SList items ->
                                                                    (match l1 with
                                                                    | [] ->
                                                                    option_map
                                                                    (fun x ->
                                                                    RDict x)
                                                                    (d_list
                                                                    (fun x ->
                                                                    match x with
                                                                    | SAtom _ ->
                                                                    None
                                                                    | SList l2 ->
                                                                    (match l2 with
                                                                    | [] ->
                                                                    None
                                                                    | s7 :: l3 ->
                                                                    (match s7 with
                                                                    | SAtom k ->
                                                                    (match l3 with
                                                                    | [] ->
                                                                    None
                                                                    | c :: l4 ->
                                                                    (match l4 with
                                                                    | [] ->
                                                                    option_map
                                                                    (fun c' ->
                                                                    (k, c'))
                                                                    (d_colrep
                                                                    c)
                                                                    | _ :: _ ->
                                                                    None))
                                                                    | SList _ ->
                                                                    None)))
                                                                    items)
                                                                    | _ :: _ ->
                                                                    None)))
                                                                    | _::_ ->
                                                                    None)
                                                                    else None
                                                                    else None
                                                                    else None
                                                                    else None)
                                                                    a2)
                                                                    else None
                                                                    else None
                                                                    else None
                                                                    else None)
                                                                    a1)
                                                                    else None
                                                                    else None
                                                                    else None
                                                          else None)
                                                          a0)
                                           else None
                                      else None
                       else None)
             a)
      | SList _ -> None))

(** val d_terminal : sexp -> terminal option **)

let d_terminal = function
| SAtom _ -> None
| SList l ->
  (match l with
   | [] -> None
   | s0 :: l0 ->
     (match s0 with
      | SAtom s1 ->
        (match s1 with
         | [] -> None
         | a::s2 ->
           (* If this appears, you're using Ascii internals. Please don't *)
 (fun f c ->
  let n = Char.code c in
  let h i = (n land (1 lsl i)) <> 0 in
  f (h 0) (h 1) (h 2) (h 3) (h 4) (h 5) (h 6) (h 7))
             (fun b b0 b1 b2 b3 b4 b5 b6 ->
             if b
             then if b0
                  then None
                  else if b1
                       then if b2
                            then None
                            else if b3
                                 then None
                                 else if b4
                                      then if b5
                                           then if b6
                                                then None
                                                else (match s2 with
                                                      | [] -> None
                                                      | a0::s3 ->
                                                        (* If this appears, you're using Ascii internals. Please don't *)
 (fun f c ->
  let n = Char.code c in
  let h i = (n land (1 lsl i)) <> 0 in
  f (h 0) (h 1) (h 2) (h 3) (h 4) (h 5) (h 6) (h 7))
                                                          (fun b7 b8 b9 b10 b11 b12 b13 b14 ->
                                                          if b7
                                                          then None
                                                          else if b8
                                                               then None
                                                               else if b9
                                                                    then None
                                                                    else 
                                                                    if b10
                                                                    then 
                                                                    if b11
                                                                    then 
                                                                    if b12
                                                                    then 
                                                                    if b13
                                                                    then 
                                                                    if b14
                                                                    then None
                                                                    else 
                                                                    (match s3 with
                                                                    | [] ->
                                                                    None
                                                                    | a1::s4 ->
                                                                    (* If this appears, you're using Ascii internals. Please don't *)
 (fun f c ->
  let n = Char.code c in
  let h i = (n land (1 lsl i)) <> 0 in
  f (h 0) (h 1) (h 2) (h 3) (h 4) (h 5) (h 6) (h 7))
                                                                    (fun b15 b16 b17 b18 b19 b20 b21 b22 ->
                                                                    if b15
                                                                    then None
                                                                    else 
                                                                    if b16
                                                                    then None
                                                                    else 
                                                                    if b17
                                                                    then None
                                                                    else 
                                                                    if b18
                                                                    then None
                                                                    else 
                                                                    if b19
                                                                    then 
                                                                    if b20
                                                                    then 
                                                                    if b21
                                                                    then 
                                                                    if b22
                                                                    then None
                                                                    else 
                                                                    (match s4 with
                                                                    | [] ->
                                                                    None
                                                                    | a2::s5 ->
                                                                    (* If this appears, you're using Ascii internals. Please don't *)
 (fun f c ->
  let n = Char.code c in
  let h i = (n land (1 lsl i)) <> 0 in
  f (h 0) (h 1) (h 2) (h 3) (h 4) (h 5) (h 6) (h 7))
                                                                    (fun b23 b24 b25 b26 b27 b28 b29 b30 ->
                                                                    if b23
                                                                    then None
                                                                    else 
                                                                    if b24
                                                                    then None
                                                                    else 
                                                                    if b25
                                                                    then 
                                                                    if b26
                                                                    then 
                                                                    if b27
                                                                    then None
                                                                    else 
                                                                    if b28
                                                                    then 
                                                                    if b29
                                                                    then 
                                                                    if b30
                                                                    then None
                                                                    else 
                                                                    (match s5 with
                                                                    | [] ->
                                                                    None
                                                                    | a3::s6 ->
                                                                    (* If this appears, you're using Ascii internals. Please don't *)
 (fun f c ->
  let n = Char.code c in
  let h i = (n land (1 lsl i)) <> 0 in
  f (h 0) (h 1) (h 2) (h 3) (h 4) (h 5) (h 6) (h 7))
                                                                    (fun b31 b32 b33 b34 b35 b36 b37 b38 ->
                                                                    if b31
                                                                    then 
                                                                    if b32
                                                                    then None
                                                                    else 
                                                                    if b33
                                                                    then None
                                                                    else 
                                                                    if b34
                                                                    then 
                                                                    if b35
                                                                    then None
                                                                    else 
                                                                    if b36
                                                                    then 
                                                                    if b37
                                                                    then 
                                                                    if b38
                                                                    then None
                                                                    else 
                                                                    (match s6 with
                                                                    | [] ->
                                                                    None
                                                                    | a4::s7 ->
                                                                    (* If this appears, you're using Ascii internals. Please don't *)
 (fun f c ->
  let n = Char.code c in
  let h i = (n land (1 lsl i)) <> 0 in
  f (h 0) (h 1) (h 2) (h 3) (h 4) (h 5) (h 6) (h 7))
                                                                    (fun b39 b40 b41 b42 b43 b44 b45 b46 ->
                                                                    if b39
                                                                    then 
                                                                    if b40
                                                                    then 
                                                                    if b41
                                                                    then None
                                                                    else 
                                                                    if b42
                                                                    then None
                                                                    else 
                                                                    if b43
                                                                    then None
                                                                    else 
                                                                    if b44
                                                                    then 
                                                                    if b45
                                                                    then 
                                                                    if b46
                                                                    then None
                                                                    else 
                                                                    (match s7 with
                                                                    | [] ->
                                                                    None
                                                                    | a5::s8 ->
                                                                    (* If this appears, you're using Ascii internals. Please don't *)
 (fun f c ->
  let n = Char.code c in
  let h i = (n land (1 lsl i)) <> 0 in
  f (h 0) (h 1) (h 2) (h 3) (h 4) (h 5) (h 6) (h 7))
                                                                    (fun b47 b48 b49 b50 b51 b52 b53 b54 ->
                                                                    if b47
                                                                    then 
                                                                    if b48
                                                                    then None
                                                                    else 
                                                                    if b49
                                                                    then None
                                                                    else 
                                                                    if b50
                                                                    then 
                                                                    if b51
                                                                    then None
                                                                    else 
                                                                    if b52
                                                                    then 
                                                                    if b53
                                                                    then 
                                                                    if b54
                                                                    then None
                                                                    else 
                                                                    (match s8 with
                                                                    | [] ->
                                                                    None
                                                                    | a6::s9 ->
                                                                    (* If this appears, you're using Ascii internals. Please don't *)
 (fun f c ->
  let n = Char.code c in
  let h i = (n land (1 lsl i)) <> 0 in
  f (h 0) (h 1) (h 2) (h 3) (h 4) (h 5) (h 6) (h 7))
                                                                    (fun b55 b56 b57 b58 b59 b60 b61 b62 ->
                                                                    if b55
                                                                    then None
                                                                    else 
                                                                    if b56
                                                                    then None
                                                                    else 
                                                                    if b57
                                                                    then 
                                                                    if b58
                                                                    then None
                                                                    else 
                                                                    if b59
                                                                    then 
                                                                    if b60
                                                                    then 
                                                                    if b61
                                                                    then 
                                                                    if b62
                                                                    then None
                                                                    else 
                                                                    (match s9 with
                                                                    | [] ->
                                                                    (match l0 with
                                                                    | [] ->
                                                                    None
                                                                    | s10 :: l1 ->
                                                                    (match s10 with
                                                                    | SAtom _ ->
                                                                    None
                                                                    | SList l2 ->
                                                                    (match l2 with
                                                                    | [] ->
                                                                    None
                                                                    | s11 :: l3 ->
                                                                    (match s11 with
                                                                    | SAtom s12 ->
                                                                    (match s12 with
                                                                    | [] ->
                                                                    None
                                                                    | a7::s13 ->
                                                                    (* If this appears, you're using Ascii internals. Please don't *)
 (fun f c ->
  let n = Char.code c in
  let h i = (n land (1 lsl i)) <> 0 in
  f (h 0) (h 1) (h 2) (h 3) (h 4) (h 5) (h 6) (h 7))
                                                                    (fun b63 b64 b65 b66 b67 b68 b69 b70 ->
                                                                    if b63
                                                                    then 
                                                                    if b64
                                                                    then 
                                                                    if b65
                                                                    then None
                                                                    else 
                                                                    if b66
                                                                    then None
                                                                    else 
                                                                    if b67
                                                                    then 
                                                                    if b68
                                                                    then 
                                                                    if b69
                                                                    then 
                                                                    if b70
                                                                    then None
                                                                    else 
                                                                    (match s13 with
                                                                    | [] ->
                                                                    None
                                                                    | a8::s14 ->
                                                                    (* If this appears, you're using Ascii internals. Please don't *)
 (fun f c ->
  let n = Char.code c in
  let h i = (n land (1 lsl i)) <> 0 in
  f (h 0) (h 1) (h 2) (h 3) (h 4) (h 5) (h 6) (h 7))
                                                                    (fun b71 b72 b73 b74 b75 b76 b77 b78 ->
                                                                    if b71
                                                                    then None
                                                                    else 
                                                                    if b72
                                                                    then None
                                                                    else 
                                                                    if b73
                                                                    then 
                                                                    if b74
                                                                    then None
                                                                    else 
                                                                    if b75
                                                                    then 
                                                                    if b76
                                                                    then 
                                                                    if b77
                                                                    then 
                                                                    if b78
                                                                    then None
                                                                    else 
                                                                    (match s14 with
                                                                    | [] ->
                                                                    None
                                                                    | a9::s15 ->
                                                                    (* If this appears, you're using Ascii internals. Please don't *)
 (fun f c ->
  let n = Char.code c in
  let h i = (n land (1 lsl i)) <> 0 in
  f (h 0) (h 1) (h 2) (h 3) (h 4) (h 5) (h 6) (h 7))
                                                                    (fun b79 b80 b81 b82 b83 b84 b85 b86 ->
                                                                    if b79
                                                                    then None
                                                                    else 
                                                                    if b80
                                                                    then 
                                                                    if b81
                                                                    then None
                                                                    else 
                                                                    if b82
                                                                    then None
                                                                    else 
                                                                    if b83
                                                                    then 
                                                                    if b84
                                                                    then 
                                                                    if b85
                                                                    then 
                                                                    if b86
                                                                    then None
                                                                    else 
                                                                    (match s15 with
                                                                    | [] ->
                                                                    (match l3 with
                                                                    | [] ->
                                                                    None
                                                                    | s16 :: l4 ->
                                                                    (match s16 with
                                                                    | SAtom n0 ->
                                                                    (match l4 with
                                                                    | [] ->
                                                                    (match l1 with
                                                                    | [] ->
                                                                    None
                                                                    | s17 :: l5 ->
                                                                    (match s17 with
                                                                    | SAtom tree ->
                                                                    (match l5 with
                                                                    | [] ->
                                                                    Some
                                                                    (TExplicit
                                                                    ((NStr
                                                                    n0),
                                                                    tree))
                                                                    | _ :: _ ->
                                                                    None)
                                                                    | SList _ ->
                                                                    None))
                                                                    | _ :: _ ->
                                                                    None)
                                                                    | SList _ ->
                                                                    None))
                                                                    | _::_ ->
                                                                    None)
                                                                    else None
                                                                    else None
                                                                    else None
                                                                    else None)
                                                                    a9)
                                                                    else None
                                                                    else None
                                                                    else None
                                                                    else None)
                                                                    a8)
                                                                    else None
                                                                    else None
                                                                    else None
                                                                    else None
                                                                    else 
                                                                    if b64
                                                                    then None
                                                                    else 
                                                                    if b65
                                                                    then 
                                                                    if b66
                                                                    then 
                                                                    if b67
                                                                    then None
                                                                    else 
                                                                    if b68
                                                                    then 
                                                                    if b69
                                                                    then 
                                                                    if b70
                                                                    then None
                                                                    else 
                                                                    (match s13 with
                                                                    | [] ->
                                                                    None
                                                                    | a8::s14 ->
                                                                    (* If this appears, you're using Ascii internals. Please don't *)
 (fun f c ->
  let n = Char.code c in
  let h i = (n land (1 lsl i)) <> 0 in
  f (h 0) (h 1) (h 2) (h 3) (h 4) (h 5) (h 6) (h 7))
                                                                    (fun b71 b72 b73 b74 b75 b76 b77 b78 ->
                                                                    if b71
                                                                    then 
                                                                    if b72
                                                                    then None
                                                                    else 
                                                                    if b73
                                                                    then None
                                                                    else 
                                                                    if b74
                                                                    then 
                                                                    if b75
                                                                    then None
                                                                    else 
                                                                    if b76
                                                                    then 
                                                                    if b77
                                                                    then 
                                                                    if b78
                                                                    then None
                                                                    else 
                                                                    (match s14 with
                                                                    | [] ->
                                                                    None
                                                                    | a9::s15 ->
                                                                    (* If this appears, you're using Ascii internals. Please don't *)
 (fun f c ->
  let n = Char.code c in
  let h i = (n land (1 lsl i)) <> 0 in
  f (h 0) (h 1) (h 2) (h 3) (h 4) (h 5) (h 6) (h 7))
                                                                    (fun b79 b80 b81 b82 b83 b84 b85 b86 ->
                                                                    if b79
                                                                    then 
                                                                    if b80
                                                                    then 
                                                                    if b81
                                                                    then None
                                                                    else 
                                                                    if b82
                                                                    then None
                                                                    else 
                                                                    if b83
                                                                    then 
                                                                    if b84
                                                                    then 
                                                                    if b85
                                                                    then 
                                                                    if b86
                                                                    then None
                                                                    else 
                                                                    (match s15 with
                                                                    | [] ->
                                                                    None
                                                                    | a10::s16 ->
                                                                    (* If this appears, you're using Ascii internals. Please don't *)
 (fun f c ->
  let n = Char.code c in
  let h i = (n land (1 lsl i)) <> 0 in
  f (h 0) (h 1) (h 2) (h 3) (h 4) (h 5) (h 6) (h 7))
                                                                    (fun b87 b88 b89 b90 b91 b92 b93 b94 ->
                                                                    if b87
                                                                    then None
                                                                    else 
                                                                    if b88
                                                                    then None
                                                                    else 
                                                                    if b89
                                                                    then 
                                                                    if b90
                                                                    then None
                                                                    else 
                                                                    if b91
                                                                    then 
                                                                    if b92
                                                                    then 
                                                                    if b93
                                                                    then 
                                                                    if b94
                                                                    then None
                                                                    else 
                                                                    (match s16 with
                                                                    | [] ->
                                                                    (match l3 with
                                                                    | [] ->
                                                                    None
                                                                    | names :: l4 ->
                                                                    (match l4 with
                                                                    | [] ->
                                                                    (match l1 with
                                                                    | [] ->
                                                                    None
                                                                    | s17 :: l5 ->
                                                                    (match s17 with
                                                                    | SAtom tree ->
                                                                    (match l5 with
                                                                    | [] ->
                                                                    option_map
                                                                    (fun l6 ->
                                                                    TExplicit
                                                                    ((NList
                                                                    l6),
                                                                    tree))
                                                                    (d_strs
                                                                    names)
                                                                    | _ :: _ ->
                                                                    None)
                                                                    | SList _ ->
                                                                    None))
                                                                    | _ :: _ ->
                                                                    None))
                                                                    | _::_ ->
                                                                    None)
                                                                    else None
                                                                    else None
                                                                    else None
                                                                    else None)
                                                                    a10)
                                                                    else None
                                                                    else None
                                                                    else None
                                                                    else None
                                                                    else None)
                                                                    a9)
                                                                    else None
                                                                    else None
                                                                    else None
                                                                    else None)
                                                                    a8)
                                                                    else None
                                                                    else None
                                                                    else None
                                                                    else None)
                                                                    a7)
                                                                    | SList _ ->
                                                                    None))))
                                                                    | _::_ ->
                                                                    None)
                                                                    else None
                                                                    else None
                                                                    else None
                                                                    else None)
                                                                    a6)
                                                                    else None
                                                                    else None
                                                                    else None
                                                                    else None)
                                                                    a5)
                                                                    else None
                                                                    else None
                                                                    else None
                                                                    else None)
                                                                    a4)
                                                                    else None
                                                                    else None
                                                                    else None
                                                                    else None)
                                                                    a3)
                                                                    else None
                                                                    else None
                                                                    else None
                                                                    else None)
                                                                    a2)
                                                                    else None
                                                                    else None
                                                                    else None)
                                                                    a1)
                                                                    else None
                                                                    else None
                                                                    else None
                                                                    else None)
                                                          a0)
                                           else None
                                      else None
                       else if b2
                            then if b3
                                 then None
                                 else if b4
                                      then if b5
                                           then if b6
                                                then None
                                                else (match s2 with
                                                      | [] -> None
                                                      | a0::s3 ->
                                                        (* If this appears, you're using Ascii internals. Please don't *)
 (fun f c ->
  let n = Char.code c in
  let h i = (n land (1 lsl i)) <> 0 in
  f (h 0) (h 1) (h 2) (h 3) (h 4) (h 5) (h 6) (h 7))
                                                          (fun b7 b8 b9 b10 b11 b12 b13 b14 ->
                                                          if b7
                                                          then if b8
                                                               then None
                                                               else if b9
                                                                    then 
                                                                    if b10
                                                                    then 
                                                                    if b11
                                                                    then None
                                                                    else 
                                                                    if b12
                                                                    then 
                                                                    if b13
                                                                    then 
                                                                    if b14
                                                                    then None
                                                                    else 
                                                                    (match s3 with
                                                                    | [] ->
                                                                    None
                                                                    | a1::s4 ->
                                                                    (* If this appears, you're using Ascii internals. Please don't *)
 (fun f c ->
  let n = Char.code c in
  let h i = (n land (1 lsl i)) <> 0 in
  f (h 0) (h 1) (h 2) (h 3) (h 4) (h 5) (h 6) (h 7))
                                                                    (fun b15 b16 b17 b18 b19 b20 b21 b22 ->
                                                                    if b15
                                                                    then None
                                                                    else 
                                                                    if b16
                                                                    then None
                                                                    else 
                                                                    if b17
                                                                    then None
                                                                    else 
                                                                    if b18
                                                                    then None
                                                                    else 
                                                                    if b19
                                                                    then 
                                                                    if b20
                                                                    then 
                                                                    if b21
                                                                    then 
                                                                    if b22
                                                                    then None
                                                                    else 
                                                                    (match s4 with
                                                                    | [] ->
                                                                    None
                                                                    | a2::s5 ->
                                                                    (* If this appears, you're using Ascii internals. Please don't *)
 (fun f c ->
  let n = Char.code c in
  let h i = (n land (1 lsl i)) <> 0 in
  f (h 0) (h 1) (h 2) (h 3) (h 4) (h 5) (h 6) (h 7))
                                                                    (fun b23 b24 b25 b26 b27 b28 b29 b30 ->
                                                                    if b23
                                                                    then None
                                                                    else 
                                                                    if b24
                                                                    then None
                                                                    else 
                                                                    if b25
                                                                    then 
                                                                    if b26
                                                                    then 
                                                                    if b27
                                                                    then None
                                                                    else 
                                                                    if b28
                                                                    then 
                                                                    if b29
                                                                    then 
                                                                    if b30
                                                                    then None
                                                                    else 
                                                                    (match s5 with
                                                                    | [] ->
                                                                    None
                                                                    | a3::s6 ->
                                                                    (* If this appears, you're using Ascii internals. Please don't *)
 (fun f c ->
  let n = Char.code c in
  let h i = (n land (1 lsl i)) <> 0 in
  f (h 0) (h 1) (h 2) (h 3) (h 4) (h 5) (h 6) (h 7))
                                                                    (fun b31 b32 b33 b34 b35 b36 b37 b38 ->
                                                                    if b31
                                                                    then 
                                                                    if b32
                                                                    then None
                                                                    else 
                                                                    if b33
                                                                    then None
                                                                    else 
                                                                    if b34
                                                                    then 
                                                                    if b35
                                                                    then None
                                                                    else 
                                                                    if b36
                                                                    then 
                                                                    if b37
                                                                    then 
                                                                    if b38
                                                                    then None
                                                                    else 
                                                                    (match s6 with
                                                                    | [] ->
                                                                    None
                                                                    | a4::s7 ->
                                                                    (* If this appears, you're using Ascii internals. Please don't *)
 (fun f c ->
  let n = Char.code c in
  let h i = (n land (1 lsl i)) <> 0 in
  f (h 0) (h 1) (h 2) (h 3) (h 4) (h 5) (h 6) (h 7))
                                                                    (fun b39 b40 b41 b42 b43 b44 b45 b46 ->
                                                                    if b39
                                                                    then 
                                                                    if b40
                                                                    then 
                                                                    if b41
                                                                    then None
                                                                    else 
                                                                    if b42
                                                                    then None
                                                                    else 
                                                                    if b43
                                                                    then None
                                                                    else 
                                                                    if b44
                                                                    then 
                                                                    if b45
                                                                    then 
                                                                    if b46
                                                                    then None
                                                                    else 
                                                                    (match s7 with
                                                                    | [] ->
                                                                    None
                                                                    | a5::s8 ->
                                                                    (* If this appears, you're using Ascii internals. Please don't *)
 (fun f c ->
  let n = Char.code c in
  let h i = (n land (1 lsl i)) <> 0 in
  f (h 0) (h 1) (h 2) (h 3) (h 4) (h 5) (h 6) (h 7))
                                                                    (fun b47 b48 b49 b50 b51 b52 b53 b54 ->
                                                                    if b47
                                                                    then 
                                                                    if b48
                                                                    then None
                                                                    else 
                                                                    if b49
                                                                    then None
                                                                    else 
                                                                    if b50
                                                                    then 
                                                                    if b51
                                                                    then None
                                                                    else 
                                                                    if b52
                                                                    then 
                                                                    if b53
                                                                    then 
                                                                    if b54
                                                                    then None
                                                                    else 
                                                                    (match s8 with
                                                                    | [] ->
                                                                    None
                                                                    | a6::s9 ->
                                                                    (* If this appears, you're using Ascii internals. Please don't *)
 (fun f c ->
  let n = Char.code c in
  let h i = (n land (1 lsl i)) <> 0 in
  f (h 0) (h 1) (h 2) (h 3) (h 4) (h 5) (h 6) (h 7))
                                                                    (fun b55 b56 b57 b58 b59 b60 b61 b62 ->
                                                                    if b55
                                                                    then None
                                                                    else 
                                                                    if b56
                                                                    then None
                                                                    else 
                                                                    if b57
                                                                    then 
                                                                    if b58
                                                                    then None
                                                                    else 
                                                                    if b59
                                                                    then 
                                                                    if b60
                                                                    then 
                                                                    if b61
                                                                    then 
                                                                    if b62
                                                                    then None
                                                                    else 
                                                                    (match s9 with
                                                                    | [] ->
                                                                    (match l0 with
                                                                    | [] ->
                                                                    Some
                                                                    TImplicit
                                                                    | _ :: _ ->
                                                                    None)
                                                                    | _::_ ->
                                                                    None)
                                                                    else None
                                                                    else None
                                                                    else None
                                                                    else None)
                                                                    a6)
                                                                    else None
                                                                    else None
                                                                    else None
                                                                    else None)
                                                                    a5)
                                                                    else None
                                                                    else None
                                                                    else None
                                                                    else None)
                                                                    a4)
                                                                    else None
                                                                    else None
                                                                    else None
                                                                    else None)
                                                                    a3)
                                                                    else None
                                                                    else None
                                                                    else None
                                                                    else None)
                                                                    a2)
                                                                    else None
                                                                    else None
                                                                    else None)
                                                                    a1)
                                                                    else None
                                                                    else None
                                                                    else None
                                                                    else None
                                                          else None)
                                                          a0)
                                           else None
                                      else None
                            else None
             else None)
             a)
      | SList _ -> None))

(** val s_column : column -> sexp **)

let s_column c =
  SList ((SAtom c.c_name) :: ((SAtom c.c_var) :: ((SAtom
    c.c_type) :: ((s_bool c.c_is_vec) :: []))))

(** val s_schema : schema -> sexp **)

let s_schema s =
  SList ((SAtom s.sc_tree) :: ((SList
    (map s_column s.sc_columns)) :: ((s_strs s.sc_class_decl) :: ((s_strs
                                                                    s.sc_book) :: ((SAtom
    s.sc_fill) :: ((s_strs s.sc_clears) :: ((SList ((SAtom
    (fst s.sc_descr)) :: ((SAtom
    (snd s.sc_descr)) :: []))) :: ((s_nat s.sc_next_index) :: []))))))))

(** val run_schema : sexp -> sexp **)

let run_schema = function
| SAtom _ -> bad_input
| SList l ->
  (match l with
   | [] -> bad_input
   | b :: l0 ->
     (match l0 with
      | [] -> bad_input
      | i :: l1 ->
        (match l1 with
         | [] -> bad_input
         | t :: l2 ->
           (match l2 with
            | [] -> bad_input
            | r :: l3 ->
              (match l3 with
               | [] ->
                 (match d_backend b with
                  | Some b' ->
                    (match d_nat i with
                     | Some i' ->
                       (match d_terminal t with
                        | Some t' ->
                          (match d_row r with
                           | Some r' ->
                             s_result s_schema
                               (translate_terminal b' i' t' r')
                           | None -> bad_input)
                        | None -> bad_input)
                     | None -> bad_input)
                  | None -> bad_input)
               | _ :: _ -> bad_input)))))

(** val run_expected : sexp -> sexp **)

let run_expected = function
| SAtom _ -> bad_input
| SList l ->
  (match l with
   | [] -> bad_input
   | b :: l0 ->
     (match l0 with
      | [] -> bad_input
      | t :: l1 ->
        (match l1 with
         | [] -> bad_input
         | r :: l2 ->
           (match l2 with
            | [] ->
              (match d_backend b with
               | Some b' ->
                 (match d_terminal t with
                  | Some t' ->
                    (match d_row r with
                     | Some r' ->
                       SList ((s_strs (expected_names t' r')) :: ((SAtom
                         (expected_tree b' t')) :: []))
                     | None -> bad_input)
                  | None -> bad_input)
               | None -> bad_input)
            | _ :: _ -> bad_input))))

(** val dispatch : char list -> sexp -> sexp **)

let dispatch cmd arg =
  if eqb0 cmd ('c'::('1'::('5'::('.'::('g'::('e'::('n'::[])))))))
  then run_gen arg
  else if eqb0 cmd
            ('c'::('1'::('2'::('.'::('a'::('u'::('d'::('i'::('t'::[])))))))))
       then audit math_env documented
       else if eqb0 cmd
                 ('c'::('p'::('p'::('.'::('p'::('r'::('i'::('n'::('t'::[])))))))))
            then run_print arg
            else if eqb0 cmd
                      ('c'::('p'::('p'::('.'::('r'::('u'::('n'::[])))))))
                 then run_run arg
                 else if eqb0 cmd
                           ('c'::('0'::('3'::('.'::('s'::('c'::('h'::('e'::('m'::('a'::[]))))))))))
                      then run_schema arg
                      else if eqb0 cmd
                                ('c'::('0'::('3'::('.'::('e'::('x'::('p'::('e'::('c'::('t'::('e'::('d'::[]))))))))))))
                           then run_expected arg
                           else if eqb0 cmd
                                     ('c'::('0'::('3'::('.'::('f'::('i'::('l'::('l'::('c'::('h'::('e'::('c'::('k'::[])))))))))))))
                                then run_fillcheck arg
                                else s_tag
                                       ('u'::('n'::('k'::('n'::('o'::('w'::('n'::('-'::('c'::('o'::('m'::('m'::('a'::('n'::('d'::[])))))))))))))))
                                       ((SAtom cmd) :: [])
