
(** val negb : bool -> bool **)

let negb = function
| true -> false
| false -> true

type nat =
| O
| S of nat

(** val option_map : ('a1 -> 'a2) -> 'a1 option -> 'a2 option **)

let option_map f = function
| Some a -> Some (f a)
| None -> None

(** val fst : ('a1 * 'a2) -> 'a1 **)

let fst = function
| (x, _) -> x

(** val snd : ('a1 * 'a2) -> 'a2 **)

let snd = function
| (_, y) -> y

(** val length : 'a1 list -> nat **)

let rec length = function
| [] -> O
| _ :: l' -> S (length l')

(** val app : 'a1 list -> 'a1 list -> 'a1 list **)

let rec app l m =
  match l with
  | [] -> m
  | a :: l1 -> a :: (app l1 m)

type comparison =
| Eq
| Lt
| Gt

(** val compOpp : comparison -> comparison **)

let compOpp = function
| Eq -> Eq
| Lt -> Gt
| Gt -> Lt

module Coq__1 = struct
 (** val add : nat -> nat -> nat **)
 let rec add n0 m =
   match n0 with
   | O -> m
   | S p -> S (add p m)
end
include Coq__1

(** val sub : nat -> nat -> nat **)

let rec sub n0 m =
  match n0 with
  | O -> n0
  | S k -> (match m with
            | O -> n0
            | S l -> sub k l)

type positive =
| XI of positive
| XO of positive
| XH

type n =
| N0
| Npos of positive

type z =
| Z0
| Zpos of positive
| Zneg of positive

module Nat =
 struct
  (** val sub : nat -> nat -> nat **)

  let rec sub n0 m =
    match n0 with
    | O -> n0
    | S k -> (match m with
              | O -> n0
              | S l -> sub k l)

  (** val eqb : nat -> nat -> bool **)

  let rec eqb n0 m =
    match n0 with
    | O -> (match m with
            | O -> true
            | S _ -> false)
    | S n' -> (match m with
               | O -> false
               | S m' -> eqb n' m')

  (** val leb : nat -> nat -> bool **)

  let rec leb n0 m =
    match n0 with
    | O -> true
    | S n' -> (match m with
               | O -> false
               | S m' -> leb n' m')

  (** val ltb : nat -> nat -> bool **)

  let ltb n0 m =
    leb (S n0) m

  (** val divmod : nat -> nat -> nat -> nat -> nat * nat **)

  let rec divmod x y q u =
    match x with
    | O -> (q, u)
    | S x' ->
      (match u with
       | O -> divmod x' y (S q) y
       | S u' -> divmod x' y q u')

  (** val div : nat -> nat -> nat **)

  let div x y = match y with
  | O -> y
  | S y' -> fst (divmod x y' O y')

  (** val modulo : nat -> nat -> nat **)

  let modulo x = function
  | O -> x
  | S y' -> sub y' (snd (divmod x y' O y'))
 end

module Pos =
 struct
  type mask =
  | IsNul
  | IsPos of positive
  | IsNeg
 end

module Coq_Pos =
 struct
  (** val succ : positive -> positive **)

  let rec succ = function
  | XI p -> XO (succ p)
  | XO p -> XI p
  | XH -> XO XH

  (** val add : positive -> positive -> positive **)

  let rec add x y =
    match x with
    | XI p ->
      (match y with
       | XI q -> XO (add_carry p q)
       | XO q -> XI (add p q)
       | XH -> XO (succ p))
    | XO p ->
      (match y with
       | XI q -> XI (add p q)
       | XO q -> XO (add p q)
       | XH -> XI p)
    | XH -> (match y with
             | XI q -> XO (succ q)
             | XO q -> XI q
             | XH -> XO XH)

  (** val add_carry : positive -> positive -> positive **)

  and add_carry x y =
    match x with
    | XI p ->
      (match y with
       | XI q -> XI (add_carry p q)
       | XO q -> XO (add_carry p q)
       | XH -> XI (succ p))
    | XO p ->
      (match y with
       | XI q -> XO (add_carry p q)
       | XO q -> XI (add p q)
       | XH -> XO (succ p))
    | XH ->
      (match y with
       | XI q -> XI (succ q)
       | XO q -> XO (succ q)
       | XH -> XI XH)

  (** val pred_double : positive -> positive **)

  let rec pred_double = function
  | XI p -> XI (XO p)
  | XO p -> XI (pred_double p)
  | XH -> XH

  type mask = Pos.mask =
  | IsNul
  | IsPos of positive
  | IsNeg

  (** val succ_double_mask : mask -> mask **)

  let succ_double_mask = function
  | IsNul -> IsPos XH
  | IsPos p -> IsPos (XI p)
  | IsNeg -> IsNeg

  (** val double_mask : mask -> mask **)

  let double_mask = function
  | IsPos p -> IsPos (XO p)
  | x0 -> x0

  (** val double_pred_mask : positive -> mask **)

  let double_pred_mask = function
  | XI p -> IsPos (XO (XO p))
  | XO p -> IsPos (XO (pred_double p))
  | XH -> IsNul

  (** val sub_mask : positive -> positive -> mask **)

  let rec sub_mask x y =
    match x with
    | XI p ->
      (match y with
       | XI q -> double_mask (sub_mask p q)
       | XO q -> succ_double_mask (sub_mask p q)
       | XH -> IsPos (XO p))
    | XO p ->
      (match y with
       | XI q -> succ_double_mask (sub_mask_carry p q)
       | XO q -> double_mask (sub_mask p q)
       | XH -> IsPos (pred_double p))
    | XH -> (match y with
             | XH -> IsNul
             | _ -> IsNeg)

  (** val sub_mask_carry : positive -> positive -> mask **)

  and sub_mask_carry x y =
    match x with
    | XI p ->
      (match y with
       | XI q -> succ_double_mask (sub_mask_carry p q)
       | XO q -> double_mask (sub_mask p q)
       | XH -> IsPos (pred_double p))
    | XO p ->
      (match y with
       | XI q -> double_mask (sub_mask_carry p q)
       | XO q -> succ_double_mask (sub_mask_carry p q)
       | XH -> double_pred_mask p)
    | XH -> IsNeg

  (** val mul : positive -> positive -> positive **)

  let rec mul x y =
    match x with
    | XI p -> add y (XO (mul p y))
    | XO p -> XO (mul p y)
    | XH -> y

  (** val size : positive -> positive **)

  let rec size = function
  | XI p0 -> succ (size p0)
  | XO p0 -> succ (size p0)
  | XH -> XH

  (** val compare_cont : comparison -> positive -> positive -> comparison **)

  let rec compare_cont r x y =
    match x with
    | XI p ->
      (match y with
       | XI q -> compare_cont r p q
       | XO q -> compare_cont Gt p q
       | XH -> Gt)
    | XO p ->
      (match y with
       | XI q -> compare_cont Lt p q
       | XO q -> compare_cont r p q
       | XH -> Gt)
    | XH -> (match y with
             | XH -> r
             | _ -> Lt)

  (** val compare : positive -> positive -> comparison **)

  let compare =
    compare_cont Eq

  (** val eqb : positive -> positive -> bool **)

  let rec eqb p q =
    match p with
    | XI p0 -> (match q with
                | XI q0 -> eqb p0 q0
                | _ -> false)
    | XO p0 -> (match q with
                | XO q0 -> eqb p0 q0
                | _ -> false)
    | XH -> (match q with
             | XH -> true
             | _ -> false)

  (** val iter_op : ('a1 -> 'a1 -> 'a1) -> positive -> 'a1 -> 'a1 **)

  let rec iter_op op p a =
    match p with
    | XI p0 -> op a (iter_op op p0 (op a a))
    | XO p0 -> iter_op op p0 (op a a)
    | XH -> a

  (** val to_nat : positive -> nat **)

  let to_nat x =
    iter_op Coq__1.add x (S O)

  (** val of_succ_nat : nat -> positive **)

  let rec of_succ_nat = function
  | O -> XH
  | S x -> succ (of_succ_nat x)
 end

module N =
 struct
  (** val succ_double : n -> n **)

  let succ_double = function
  | N0 -> Npos XH
  | Npos p -> Npos (XI p)

  (** val double : n -> n **)

  let double = function
  | N0 -> N0
  | Npos p -> Npos (XO p)

  (** val add : n -> n -> n **)

  let add n0 m =
    match n0 with
    | N0 -> m
    | Npos p -> (match m with
                 | N0 -> n0
                 | Npos q -> Npos (Coq_Pos.add p q))

  (** val sub : n -> n -> n **)

  let sub n0 m =
    match n0 with
    | N0 -> N0
    | Npos n' ->
      (match m with
       | N0 -> n0
       | Npos m' ->
         (match Coq_Pos.sub_mask n' m' with
          | Coq_Pos.IsPos p -> Npos p
          | _ -> N0))

  (** val mul : n -> n -> n **)

  let mul n0 m =
    match n0 with
    | N0 -> N0
    | Npos p -> (match m with
                 | N0 -> N0
                 | Npos q -> Npos (Coq_Pos.mul p q))

  (** val compare : n -> n -> comparison **)

  let compare n0 m =
    match n0 with
    | N0 -> (match m with
             | N0 -> Eq
             | Npos _ -> Lt)
    | Npos n' -> (match m with
                  | N0 -> Gt
                  | Npos m' -> Coq_Pos.compare n' m')

  (** val eqb : n -> n -> bool **)

  let eqb n0 m =
    match n0 with
    | N0 -> (match m with
             | N0 -> true
             | Npos _ -> false)
    | Npos p -> (match m with
                 | N0 -> false
                 | Npos q -> Coq_Pos.eqb p q)

  (** val leb : n -> n -> bool **)

  let leb x y =
    match compare x y with
    | Gt -> false
    | _ -> true

  (** val ltb : n -> n -> bool **)

  let ltb x y =
    match compare x y with
    | Lt -> true
    | _ -> false

  (** val size : n -> n **)

  let size = function
  | N0 -> N0
  | Npos p -> Npos (Coq_Pos.size p)

  (** val pos_div_eucl : positive -> n -> n * n **)

  let rec pos_div_eucl a b =
    match a with
    | XI a' ->
      let (q, r) = pos_div_eucl a' b in
      let r' = succ_double r in
      if leb b r' then ((succ_double q), (sub r' b)) else ((double q), r')
    | XO a' ->
      let (q, r) = pos_div_eucl a' b in
      let r' = double r in
      if leb b r' then ((succ_double q), (sub r' b)) else ((double q), r')
    | XH ->
      (match b with
       | N0 -> (N0, (Npos XH))
       | Npos p -> (match p with
                    | XH -> ((Npos XH), N0)
                    | _ -> (N0, (Npos XH))))

  (** val div_eucl : n -> n -> n * n **)

  let div_eucl a b =
    match a with
    | N0 -> (N0, N0)
    | Npos na -> (match b with
                  | N0 -> (N0, a)
                  | Npos _ -> pos_div_eucl na b)

  (** val div : n -> n -> n **)

  let div a b =
    fst (div_eucl a b)

  (** val modulo : n -> n -> n **)

  let modulo a b =
    snd (div_eucl a b)

  (** val to_nat : n -> nat **)

  let to_nat = function
  | N0 -> O
  | Npos p -> Coq_Pos.to_nat p

  (** val of_nat : nat -> n **)

  let of_nat = function
  | O -> N0
  | S n' -> Npos (Coq_Pos.of_succ_nat n')
 end

(** val zero : char **)

let zero = '\000'

(** val one : char **)

let one = '\001'

(** val shift : bool -> char -> char **)

let shift = fun b c -> Char.chr (((Char.code c) lsl 1) land 255 + if b then 1 else 0)

(** val ascii_of_pos : positive -> char **)

let ascii_of_pos =
  let rec loop n0 p =
    match n0 with
    | O -> zero
    | S n' ->
      (match p with
       | XI p' -> shift true (loop n' p')
       | XO p' -> shift false (loop n' p')
       | XH -> one)
  in loop (S (S (S (S (S (S (S (S O))))))))

(** val ascii_of_N : n -> char **)

let ascii_of_N = function
| N0 -> zero
| Npos p -> ascii_of_pos p

(** val ascii_of_nat : nat -> char **)

let ascii_of_nat a =
  ascii_of_N (N.of_nat a)

(** val n_of_digits : bool list -> n **)

let rec n_of_digits = function
| [] -> N0
| b :: l' ->
  N.add (if b then Npos XH else N0) (N.mul (Npos (XO XH)) (n_of_digits l'))

(** val n_of_ascii : char -> n **)

let n_of_ascii a =
  (* If this appears, you're using Ascii internals. Please don't *)
 (fun f c ->
  let n = Char.code c in
  let h i = (n land (1 lsl i)) <> 0 in
  f (h 0) (h 1) (h 2) (h 3) (h 4) (h 5) (h 6) (h 7))
    (fun a0 a1 a2 a3 a4 a5 a6 a7 ->
    n_of_digits
      (a0 :: (a1 :: (a2 :: (a3 :: (a4 :: (a5 :: (a6 :: (a7 :: [])))))))))
    a

(** val nat_of_ascii : char -> nat **)

let nat_of_ascii a =
  N.to_nat (n_of_ascii a)

(** val map : ('a1 -> 'a2) -> 'a1 list -> 'a2 list **)

let rec map f = function
| [] -> []
| a :: t -> (f a) :: (map f t)

(** val forallb : ('a1 -> bool) -> 'a1 list -> bool **)

let rec forallb f = function
| [] -> true
| a :: l0 -> (&&) (f a) (forallb f l0)

module Z =
 struct
  (** val double : z -> z **)

  let double = function
  | Z0 -> Z0
  | Zpos p -> Zpos (XO p)
  | Zneg p -> Zneg (XO p)

  (** val succ_double : z -> z **)

  let succ_double = function
  | Z0 -> Zpos XH
  | Zpos p -> Zpos (XI p)
  | Zneg p -> Zneg (Coq_Pos.pred_double p)

  (** val pred_double : z -> z **)

  let pred_double = function
  | Z0 -> Zneg XH
  | Zpos p -> Zpos (Coq_Pos.pred_double p)
  | Zneg p -> Zneg (XI p)

  (** val pos_sub : positive -> positive -> z **)

  let rec pos_sub x y =
    match x with
    | XI p ->
      (match y with
       | XI q -> double (pos_sub p q)
       | XO q -> succ_double (pos_sub p q)
       | XH -> Zpos (XO p))
    | XO p ->
      (match y with
       | XI q -> pred_double (pos_sub p q)
       | XO q -> double (pos_sub p q)
       | XH -> Zpos (Coq_Pos.pred_double p))
    | XH ->
      (match y with
       | XI q -> Zneg (XO q)
       | XO q -> Zneg (Coq_Pos.pred_double q)
       | XH -> Z0)

  (** val add : z -> z -> z **)

  let add x y =
    match x with
    | Z0 -> y
    | Zpos x' ->
      (match y with
       | Z0 -> x
       | Zpos y' -> Zpos (Coq_Pos.add x' y')
       | Zneg y' -> pos_sub x' y')
    | Zneg x' ->
      (match y with
       | Z0 -> x
       | Zpos y' -> pos_sub y' x'
       | Zneg y' -> Zneg (Coq_Pos.add x' y'))

  (** val opp : z -> z **)

  let opp = function
  | Z0 -> Z0
  | Zpos x0 -> Zneg x0
  | Zneg x0 -> Zpos x0

  (** val compare : z -> z -> comparison **)

  let compare x y =
    match x with
    | Z0 -> (match y with
             | Z0 -> Eq
             | Zpos _ -> Lt
             | Zneg _ -> Gt)
    | Zpos x' -> (match y with
                  | Zpos y' -> Coq_Pos.compare x' y'
                  | _ -> Gt)
    | Zneg x' ->
      (match y with
       | Zneg y' -> compOpp (Coq_Pos.compare x' y')
       | _ -> Lt)

  (** val leb : z -> z -> bool **)

  let leb x y =
    match compare x y with
    | Gt -> false
    | _ -> true

  (** val abs : z -> z **)

  let abs = function
  | Zneg p -> Zpos p
  | x -> x

  (** val of_nat : nat -> z **)

  let of_nat = function
  | O -> Z0
  | S n1 -> Zpos (Coq_Pos.of_succ_nat n1)

  (** val of_N : n -> z **)

  let of_N = function
  | N0 -> Z0
  | Npos p -> Zpos p
 end

(** val eqb0 : char list -> char list -> bool **)

let rec eqb0 s1 s2 =
  match s1 with
  | [] -> (match s2 with
           | [] -> true
           | _::_ -> false)
  | c1::s1' ->
    (match s2 with
     | [] -> false
     | c2::s2' -> if (=) c1 c2 then eqb0 s1' s2' else false)

(** val append : char list -> char list -> char list **)

let rec append s1 s2 =
  match s1 with
  | [] -> s2
  | c::s1' -> c::(append s1' s2)

(** val length0 : char list -> nat **)

let rec length0 = function
| [] -> O
| _::s' -> S (length0 s')

type err =
| ErrValue
| ErrRuntime
| ErrAssert
| ErrNotImpl
| ErrKey
| ErrType
| ErrAttr
| ErrIndex
| ErrTranslation
| ErrOutOfFuel
| ErrOther of char list

type 'a result =
| OK of 'a
| Error of err

(** val err_name : err -> char list **)

let err_name = function
| ErrValue ->
  'V'::('a'::('l'::('u'::('e'::('E'::('r'::('r'::('o'::('r'::[])))))))))
| ErrRuntime ->
  'R'::('u'::('n'::('t'::('i'::('m'::('e'::('E'::('r'::('r'::('o'::('r'::[])))))))))))
| ErrAssert ->
  'A'::('s'::('s'::('e'::('r'::('t'::('i'::('o'::('n'::('E'::('r'::('r'::('o'::('r'::[])))))))))))))
| ErrNotImpl ->
  'N'::('o'::('t'::('I'::('m'::('p'::('l'::('e'::('m'::('e'::('n'::('t'::('e'::('d'::('E'::('r'::('r'::('o'::('r'::[]))))))))))))))))))
| ErrKey -> 'K'::('e'::('y'::('E'::('r'::('r'::('o'::('r'::[])))))))
| ErrType -> 'T'::('y'::('p'::('e'::('E'::('r'::('r'::('o'::('r'::[]))))))))
| ErrAttr ->
  'A'::('t'::('t'::('r'::('i'::('b'::('u'::('t'::('e'::('E'::('r'::('r'::('o'::('r'::[])))))))))))))
| ErrIndex ->
  'I'::('n'::('d'::('e'::('x'::('E'::('r'::('r'::('o'::('r'::[])))))))))
| ErrTranslation ->
  'x'::('A'::('O'::('D'::('T'::('r'::('a'::('n'::('s'::('l'::('a'::('t'::('i'::('o'::('n'::('E'::('r'::('r'::('o'::('r'::[])))))))))))))))))))
| ErrOutOfFuel ->
  'O'::('u'::('t'::('O'::('f'::('F'::('u'::('e'::('l'::[]))))))))
| ErrOther t -> t

(** val mem_str : char list -> char list list -> bool **)

let rec mem_str x = function
| [] -> false
| y :: r -> if eqb0 x y then true else mem_str x r

(** val list_str_eqb : char list list -> char list list -> bool **)

let rec list_str_eqb a b =
  match a with
  | [] -> (match b with
           | [] -> true
           | _ :: _ -> false)
  | x :: a' ->
    (match b with
     | [] -> false
     | y :: b' -> (&&) (eqb0 x y) (list_str_eqb a' b'))

(** val digit_char : nat -> char **)

let digit_char n0 =
  ascii_of_nat
    (add (S (S (S (S (S (S (S (S (S (S (S (S (S (S (S (S (S (S (S (S (S (S (S
      (S (S (S (S (S (S (S (S (S (S (S (S (S (S (S (S (S (S (S (S (S (S (S (S
      (S O)))))))))))))))))))))))))))))))))))))))))))))))) n0)

(** val dec_N_fuel : nat -> n -> char list -> char list **)

let rec dec_N_fuel fuel n0 acc =
  match fuel with
  | O -> acc
  | S f ->
    let d = N.to_nat (N.modulo n0 (Npos (XO (XI (XO XH))))) in
    let acc' = (digit_char d)::acc in
    if N.eqb (N.div n0 (Npos (XO (XI (XO XH))))) N0
    then acc'
    else dec_N_fuel f (N.div n0 (Npos (XO (XI (XO XH))))) acc'

(** val dec_N : n -> char list **)

let dec_N n0 =
  dec_N_fuel (S (N.to_nat (N.size n0))) n0 []

(** val dec_Z : z -> char list **)

let dec_Z = function
| Z0 -> '0'::[]
| Zpos p -> dec_N (Npos p)
| Zneg p -> append ('-'::[]) (dec_N (Npos p))

(** val dec_nat : nat -> char list **)

let dec_nat n0 =
  dec_N (N.of_nat n0)

(** val is_digit : char -> bool **)

let is_digit c =
  let n0 = nat_of_ascii c in
  (&&)
    (Nat.leb (S (S (S (S (S (S (S (S (S (S (S (S (S (S (S (S (S (S (S (S (S
      (S (S (S (S (S (S (S (S (S (S (S (S (S (S (S (S (S (S (S (S (S (S (S (S
      (S (S (S O)))))))))))))))))))))))))))))))))))))))))))))))) n0)
    (Nat.leb n0 (S (S (S (S (S (S (S (S (S (S (S (S (S (S (S (S (S (S (S (S
      (S (S (S (S (S (S (S (S (S (S (S (S (S (S (S (S (S (S (S (S (S (S (S (S
      (S (S (S (S (S (S (S (S (S (S (S (S (S
      O))))))))))))))))))))))))))))))))))))))))))))))))))))))))))

(** val parse_N_acc : char list -> n -> n option **)

let rec parse_N_acc s acc =
  match s with
  | [] -> Some acc
  | c::r ->
    if is_digit c
    then parse_N_acc r
           (N.add (N.mul acc (Npos (XO (XI (XO XH)))))
             (N.of_nat
               (sub (nat_of_ascii c) (S (S (S (S (S (S (S (S (S (S (S (S (S
                 (S (S (S (S (S (S (S (S (S (S (S (S (S (S (S (S (S (S (S (S
                 (S (S (S (S (S (S (S (S (S (S (S (S (S (S (S
                 O)))))))))))))))))))))))))))))))))))))))))))))))))))
    else None

(** val parse_N : char list -> n option **)

let parse_N s = match s with
| [] -> None
| _::_ -> parse_N_acc s N0

(** val parse_Z : char list -> z option **)

let parse_Z s = match s with
| [] -> option_map Z.of_N (parse_N s)
| a::r ->
  (* If this appears, you're using Ascii internals. Please don't *)
 (fun f c ->
  let n = Char.code c in
  let h i = (n land (1 lsl i)) <> 0 in
  f (h 0) (h 1) (h 2) (h 3) (h 4) (h 5) (h 6) (h 7))
    (fun b b0 b1 b2 b3 b4 b5 b6 ->
    if b
    then if b0
         then option_map Z.of_N (parse_N s)
         else if b1
              then if b2
                   then if b3
                        then option_map Z.of_N (parse_N s)
                        else if b4
                             then if b5
                                  then option_map Z.of_N (parse_N s)
                                  else if b6
                                       then option_map Z.of_N (parse_N s)
                                       else option_map (fun n0 ->
                                              Z.opp (Z.of_N n0)) (parse_N r)
                             else option_map Z.of_N (parse_N s)
                   else option_map Z.of_N (parse_N s)
              else option_map Z.of_N (parse_N s)
    else option_map Z.of_N (parse_N s))
    a

type sexp =
| SAtom of char list
| SList of sexp list

(** val s_str : char list -> sexp **)

let s_str s =
  SAtom s

(** val s_strs : char list list -> sexp **)

let s_strs l =
  SList (map (fun x -> SAtom x) l)

(** val s_Z : z -> sexp **)

let s_Z z0 =
  SAtom (dec_Z z0)

(** val s_nat : nat -> sexp **)

let s_nat n0 =
  SAtom (dec_nat n0)

(** val s_bool : bool -> sexp **)

let s_bool b =
  SAtom
    (if b
     then 't'::('r'::('u'::('e'::[])))
     else 'f'::('a'::('l'::('s'::('e'::[])))))

(** val s_tag : char list -> sexp list -> sexp **)

let s_tag t l =
  SList ((SAtom t) :: l)

(** val s_err : err -> sexp **)

let s_err e =
  s_tag ('e'::('r'::('r'::('o'::('r'::[]))))) ((SAtom (err_name e)) :: [])

(** val s_result : ('a1 -> sexp) -> 'a1 result -> sexp **)

let s_result enc = function
| OK a -> s_tag ('o'::('k'::[])) ((enc a) :: [])
| Error e -> s_err e

(** val d_str : sexp -> char list option **)

let d_str = function
| SAtom a -> Some a
| SList _ -> None

(** val d_list : (sexp -> 'a1 option) -> sexp list -> 'a1 list option **)

let rec d_list d = function
| [] -> Some []
| x :: r ->
  (match d x with
   | Some a ->
     (match d_list d r with
      | Some r' -> Some (a :: r')
      | None -> None)
   | None -> None)

(** val d_strs : sexp -> char list list option **)

let d_strs = function
| SAtom _ -> None
| SList l -> d_list d_str l

(** val d_Z : sexp -> z option **)

let d_Z = function
| SAtom a -> parse_Z a
| SList _ -> None

(** val d_bool : sexp -> bool option **)

let d_bool = function
| SAtom s0 ->
  (match s0 with
   | [] -> None
   | a::s1 ->
     (* If this appears, you're using Ascii internals. Please don't *)
 (fun f c ->
  let n = Char.code c in
  let h i = (n land (1 lsl i)) <> 0 in
  f (h 0) (h 1) (h 2) (h 3) (h 4) (h 5) (h 6) (h 7))
       (fun b b0 b1 b2 b3 b4 b5 b6 ->
       if b
       then None
       else if b0
            then if b1
                 then if b2
                      then None
                      else if b3
                           then None
                           else if b4
                                then if b5
                                     then if b6
                                          then None
                                          else (match s1 with
                                                | [] -> None
                                                | a0::s2 ->
                                                  (* If this appears, you're using Ascii internals. Please don't *)
 (fun f c ->
  let n = Char.code c in
  let h i = (n land (1 lsl i)) <> 0 in
  f (h 0) (h 1) (h 2) (h 3) (h 4) (h 5) (h 6) (h 7))
                                                    (fun b7 b8 b9 b10 b11 b12 b13 b14 ->
                                                    if b7
                                                    then if b8
                                                         then None
                                                         else if b9
                                                              then None
                                                              else if b10
                                                                   then None
                                                                   else 
                                                                    if b11
                                                                    then None
                                                                    else 
                                                                    if b12
                                                                    then 
                                                                    if b13
                                                                    then 
                                                                    if b14
                                                                    then None
                                                                    else 
                                                                    (match s2 with
                                                                    | [] ->
                                                                    None
                                                                    | a1::s3 ->
                                                                    (* If this appears, you're using Ascii internals. Please don't *)
 (fun f c ->
  let n = Char.code c in
  let h i = (n land (1 lsl i)) <> 0 in
  f (h 0) (h 1) (h 2) (h 3) (h 4) (h 5) (h 6) (h 7))
                                                                    (fun b15 b16 b17 b18 b19 b20 b21 b22 ->
                                                                    if b15
                                                                    then None
                                                                    else 
                                                                    if b16
                                                                    then None
                                                                    else 
                                                                    if b17
                                                                    then 
                                                                    if b18
                                                                    then 
                                                                    if b19
                                                                    then None
                                                                    else 
                                                                    if b20
                                                                    then 
                                                                    if b21
                                                                    then 
                                                                    if b22
                                                                    then None
                                                                    else 
                                                                    (match s3 with
                                                                    | [] ->
                                                                    None
                                                                    | a2::s4 ->
                                                                    (* If this appears, you're using Ascii internals. Please don't *)
 (fun f c ->
  let n = Char.code c in
  let h i = (n land (1 lsl i)) <> 0 in
  f (h 0) (h 1) (h 2) (h 3) (h 4) (h 5) (h 6) (h 7))
                                                                    (fun b23 b24 b25 b26 b27 b28 b29 b30 ->
                                                                    if b23
                                                                    then 
                                                                    if b24
                                                                    then 
                                                                    if b25
                                                                    then None
                                                                    else 
                                                                    if b26
                                                                    then None
                                                                    else 
                                                                    if b27
                                                                    then 
                                                                    if b28
                                                                    then 
                                                                    if b29
                                                                    then 
                                                                    if b30
                                                                    then None
                                                                    else 
                                                                    (match s4 with
                                                                    | [] ->
                                                                    None
                                                                    | a3::s5 ->
                                                                    (* If this appears, you're using Ascii internals. Please don't *)
 (fun f c ->
  let n = Char.code c in
  let h i = (n land (1 lsl i)) <> 0 in
  f (h 0) (h 1) (h 2) (h 3) (h 4) (h 5) (h 6) (h 7))
                                                                    (fun b31 b32 b33 b34 b35 b36 b37 b38 ->
                                                                    if b31
                                                                    then 
                                                                    if b32
                                                                    then None
                                                                    else 
                                                                    if b33
                                                                    then 
                                                                    if b34
                                                                    then None
                                                                    else 
                                                                    if b35
                                                                    then None
                                                                    else 
                                                                    if b36
                                                                    then 
                                                                    if b37
                                                                    then 
                                                                    if b38
                                                                    then None
                                                                    else 
                                                                    (match s5 with
                                                                    | [] ->
                                                                    Some false
                                                                    | _::_ ->
                                                                    None)
                                                                    else None
                                                                    else None
                                                                    else None
                                                                    else None)
                                                                    a3)
                                                                    else None
                                                                    else None
                                                                    else None
                                                                    else None
                                                                    else None)
                                                                    a2)
                                                                    else None
                                                                    else None
                                                                    else None
                                                                    else None)
                                                                    a1)
                                                                    else None
                                                                    else None
                                                    else None)
                                                    a0)
                                     else None
                                else None
                 else None
            else if b1
                 then if b2
                      then None
                      else if b3
                           then if b4
                                then if b5
                                     then if b6
                                          then None
                                          else (match s1 with
                                                | [] -> None
                                                | a0::s2 ->
                                                  (* If this appears, you're using Ascii internals. Please don't *)
 (fun f c ->
  let n = Char.code c in
  let h i = (n land (1 lsl i)) <> 0 in
  f (h 0) (h 1) (h 2) (h 3) (h 4) (h 5) (h 6) (h 7))
                                                    (fun b7 b8 b9 b10 b11 b12 b13 b14 ->
                                                    if b7
                                                    then None
                                                    else if b8
                                                         then if b9
                                                              then None
                                                              else if b10
                                                                   then None
                                                                   else 
                                                                    if b11
                                                                    then 
                                                                    if b12
                                                                    then 
                                                                    if b13
                                                                    then 
                                                                    if b14
                                                                    then None
                                                                    else 
                                                                    (match s2 with
                                                                    | [] ->
                                                                    None
                                                                    | a1::s3 ->
                                                                    (* If this appears, you're using Ascii internals. Please don't *)
 (fun f c ->
  let n = Char.code c in
  let h i = (n land (1 lsl i)) <> 0 in
  f (h 0) (h 1) (h 2) (h 3) (h 4) (h 5) (h 6) (h 7))
                                                                    (fun b15 b16 b17 b18 b19 b20 b21 b22 ->
                                                                    if b15
                                                                    then 
                                                                    if b16
                                                                    then None
                                                                    else 
                                                                    if b17
                                                                    then 
                                                                    if b18
                                                                    then None
                                                                    else 
                                                                    if b19
                                                                    then 
                                                                    if b20
                                                                    then 
                                                                    if b21
                                                                    then 
                                                                    if b22
                                                                    then None
                                                                    else 
                                                                    (match s3 with
                                                                    | [] ->
                                                                    None
                                                                    | a2::s4 ->
                                                                    (* If this appears, you're using Ascii internals. Please don't *)
 (fun f c ->
  let n = Char.code c in
  let h i = (n land (1 lsl i)) <> 0 in
  f (h 0) (h 1) (h 2) (h 3) (h 4) (h 5) (h 6) (h 7))
                                                                    (fun b23 b24 b25 b26 b27 b28 b29 b30 ->
                                                                    if b23
                                                                    then 
                                                                    if b24
                                                                    then None
                                                                    else 
                                                                    if b25
                                                                    then 
                                                                    if b26
                                                                    then None
                                                                    else 
                                                                    if b27
                                                                    then None
                                                                    else 
                                                                    if b28
                                                                    then 
                                                                    if b29
                                                                    then 
                                                                    if b30
                                                                    then None
                                                                    else 
                                                                    (match s4 with
                                                                    | [] ->
                                                                    Some true
                                                                    | _::_ ->
                                                                    None)
                                                                    else None
                                                                    else None
                                                                    else None
                                                                    else None)
                                                                    a2)
                                                                    else None
                                                                    else None
                                                                    else None
                                                                    else None
                                                                    else None)
                                                                    a1)
                                                                    else None
                                                                    else None
                                                                    else None
                                                         else None)
                                                    a0)
                                     else None
                                else None
                           else None
                 else None)
       a)
| SList _ -> None

(** val bad_input : sexp **)

let bad_input =
  s_tag ('b'::('a'::('d'::('-'::('i'::('n'::('p'::('u'::('t'::[]))))))))) []

type jblock = { jb_name : char list; jb_script : char list list;
                jb_deps : char list list }

type entry = char list * (char list list * char list list)

type table = entry list

(** val tget :
    char list -> table -> (char list list * char list list) option **)

let rec tget n0 = function
| [] -> None
| e :: r -> let (k, v) = e in if eqb0 n0 k then Some v else tget n0 r

(** val textend : char list -> char list list -> table -> table **)

let rec textend n0 ds = function
| [] -> []
| e :: r ->
  let (k, p) = e in
  let (s, d) = p in
  if eqb0 n0 k
  then (k, (s, (app d ds))) :: r
  else (k, (s, d)) :: (textend n0 ds r)

(** val step1 : table -> jblock -> table result **)

let step1 t b =
  match tget b.jb_name t with
  | Some p ->
    let (s0, _) = p in
    if list_str_eqb b.jb_script s0
    then OK (textend b.jb_name b.jb_deps t)
    else Error ErrValue
  | None -> OK (app t ((b.jb_name, (b.jb_script, b.jb_deps)) :: []))

(** val phase1 : jblock list -> table -> table result **)

let rec phase1 bs t =
  match bs with
  | [] -> OK t
  | b :: r -> (match step1 t b with
               | OK t' -> phase1 r t'
               | Error e -> Error e)

(** val has_key : char list -> table -> bool **)

let has_key n0 t =
  match tget n0 t with
  | Some _ -> true
  | None -> false

(** val deps_present : table -> bool **)

let deps_present t =
  forallb (fun e -> forallb (fun d -> has_key d t) (snd (snd e))) t

(** val one_pass :
    table -> char list list -> char list list -> bool -> (char list
    list * char list list) * bool **)

let rec one_pass rest seen out emitted =
  match rest with
  | [] -> ((seen, out), emitted)
  | e :: r ->
    let (n0, p) = e in
    let (scr, ds) = p in
    if (&&) (negb (mem_str n0 seen)) (forallb (fun d -> mem_str d seen) ds)
    then one_pass r (app seen (n0 :: [])) (app out scr) true
    else one_pass r seen out emitted

(** val emit_loop :
    nat -> table -> char list list -> char list list -> char list list result **)

let rec emit_loop fuel t seen out =
  if Nat.ltb (length seen) (length t)
  then (match fuel with
        | O -> Error ErrOutOfFuel
        | S f ->
          let (p, b) = one_pass t seen out false in
          let (seen', out') = p in
          if b then emit_loop f t seen' out' else Error ErrValue)
  else OK out

(** val gen : jblock list -> char list list result **)

let gen bs =
  match phase1 bs [] with
  | OK t ->
    if deps_present t
    then emit_loop (S (length t)) t [] []
    else Error ErrValue
  | Error e -> Error e

(** val d_jblock : sexp -> jblock option **)

let d_jblock = function
| SAtom _ -> None
| SList l ->
  (match l with
   | [] -> None
   | s0 :: l0 ->
     (match s0 with
      | SAtom n0 ->
        (match l0 with
         | [] -> None
         | sc :: l1 ->
           (match l1 with
            | [] -> None
            | dp :: l2 ->
              (match l2 with
               | [] ->
                 (match d_strs sc with
                  | Some sc' ->
                    (match d_strs dp with
                     | Some dp' ->
                       Some { jb_name = n0; jb_script = sc'; jb_deps = dp' }
                     | None -> None)
                  | None -> None)
               | _ :: _ -> None)))
      | SList _ -> None))

(** val run_gen : sexp -> sexp **)

let run_gen = function
| SAtom _ -> bad_input
| SList l ->
  (match d_list d_jblock l with
   | Some bs -> s_result s_strs (gen bs)
   | None -> bad_input)

type mrow = { m_py : char list; m_cpp : char list; m_inc : char list list;
              m_ret : char list }

type menv = { e_rows : mrow list; e_module : char list list;
              e_builtins : (char list * char list) list }

(** val lookup_row : char list -> mrow list -> mrow option **)

let rec lookup_row k = function
| [] -> None
| r :: rest ->
  (match lookup_row k rest with
   | Some r' -> Some r'
   | None -> if eqb0 k r.m_py then Some r else None)

(** val assoc :
    char list -> (char list * char list) list -> char list option **)

let rec assoc k = function
| [] -> None
| p :: r -> let (a, b) = p in if eqb0 k a then Some b else assoc k r

type resolution =
| RName of char list
| RCrash

(** val resolve : menv -> char list -> resolution **)

let resolve e n0 =
  if mem_str n0 e.e_module
  then RCrash
  else (match assoc n0 e.e_builtins with
        | Some m ->
          (match m with
           | [] -> RName (append m (append ('.'::[]) n0))
           | a::s ->
             (* If this appears, you're using Ascii internals. Please don't *)
 (fun f c ->
  let n = Char.code c in
  let h i = (n land (1 lsl i)) <> 0 in
  f (h 0) (h 1) (h 2) (h 3) (h 4) (h 5) (h 6) (h 7))
               (fun b b0 b1 b2 b3 b4 b5 b6 ->
               if b
               then if b0
                    then RName (append m (append ('.'::[]) n0))
                    else if b1
                         then if b2
                              then if b3
                                   then RName (append m (append ('.'::[]) n0))
                                   else if b4
                                        then if b5
                                             then RName
                                                    (append m
                                                      (append ('.'::[]) n0))
                                             else if b6
                                                  then RName
                                                         (append m
                                                           (append ('.'::[])
                                                             n0))
                                                  else (match s with
                                                        | [] -> RCrash
                                                        | _::_ ->
                                                          RName
                                                            (append m
                                                              (append
                                                                ('.'::[]) n0)))
                                        else RName
                                               (append m
                                                 (append ('.'::[]) n0))
                              else RName (append m (append ('.'::[]) n0))
                         else RName (append m (append ('.'::[]) n0))
               else RName (append m (append ('.'::[]) n0)))
               a)
        | None -> RName n0)

(** val find_row : menv -> char list -> mrow option **)

let find_row e n0 =
  match resolve e n0 with
  | RName q -> lookup_row q e.e_rows
  | RCrash -> None

(** val acceptable : char list -> char list -> bool **)

let acceptable n0 cpp =
  (||)
    ((||) (eqb0 cpp (append ('s'::('t'::('d'::(':'::(':'::[]))))) n0))
      ((&&) (eqb0 n0 ('l'::('n'::[])))
        (eqb0 cpp ('s'::('t'::('d'::(':'::(':'::('l'::('o'::('g'::[])))))))))))
    ((&&) (eqb0 n0 ('a'::('b'::('s'::[]))))
      ((||)
        (eqb0 cpp
          ('s'::('t'::('d'::(':'::(':'::('f'::('a'::('b'::('s'::[]))))))))))
        (eqb0 cpp ('s'::('t'::('d'::(':'::(':'::('a'::('b'::('s'::[])))))))))))

(** val cmath_sig : (char list * (nat * bool)) list **)

let cmath_sig =
  (('s'::('i'::('n'::[]))), ((S O), false)) :: ((('c'::('o'::('s'::[]))), ((S
    O), false)) :: ((('t'::('a'::('n'::[]))), ((S O),
    false)) :: ((('a'::('c'::('o'::('s'::[])))), ((S O),
    false)) :: ((('a'::('s'::('i'::('n'::[])))), ((S O),
    false)) :: ((('a'::('t'::('a'::('n'::[])))), ((S O),
    false)) :: ((('a'::('t'::('a'::('n'::('2'::[]))))), ((S (S O)),
    false)) :: ((('s'::('i'::('n'::('h'::[])))), ((S O),
    false)) :: ((('c'::('o'::('s'::('h'::[])))), ((S O),
    false)) :: ((('t'::('a'::('n'::('h'::[])))), ((S O),
    false)) :: ((('a'::('s'::('i'::('n'::('h'::[]))))), ((S O),
    false)) :: ((('a'::('c'::('o'::('s'::('h'::[]))))), ((S O),
    false)) :: ((('a'::('t'::('a'::('n'::('h'::[]))))), ((S O),
    false)) :: ((('e'::('x'::('p'::[]))), ((S O),
    false)) :: ((('l'::('d'::('e'::('x'::('p'::[]))))), ((S (S O)),
    false)) :: ((('l'::('o'::('g'::[]))), ((S O),
    false)) :: ((('l'::('n'::[])), ((S O),
    false)) :: ((('l'::('o'::('g'::('1'::('0'::[]))))), ((S O),
    false)) :: ((('e'::('x'::('p'::('2'::[])))), ((S O),
    false)) :: ((('e'::('x'::('p'::('m'::('1'::[]))))), ((S O),
    false)) :: ((('i'::('l'::('o'::('g'::('b'::[]))))), ((S O),
    false)) :: ((('l'::('o'::('g'::('1'::('p'::[]))))), ((S O),
    false)) :: ((('l'::('o'::('g'::('2'::[])))), ((S O),
    false)) :: ((('s'::('c'::('a'::('l'::('b'::('n'::[])))))), ((S (S O)),
    false)) :: ((('s'::('c'::('a'::('l'::('b'::('l'::('n'::[]))))))), ((S (S
    O)), false)) :: ((('p'::('o'::('w'::[]))), ((S (S O)),
    false)) :: ((('s'::('q'::('r'::('t'::[])))), ((S O),
    false)) :: ((('c'::('b'::('r'::('t'::[])))), ((S O),
    false)) :: ((('h'::('y'::('p'::('o'::('t'::[]))))), ((S (S O)),
    false)) :: ((('e'::('r'::('f'::[]))), ((S O),
    false)) :: ((('e'::('r'::('f'::('c'::[])))), ((S O),
    false)) :: ((('t'::('g'::('a'::('m'::('m'::('a'::[])))))), ((S O),
    false)) :: ((('l'::('g'::('a'::('m'::('m'::('a'::[])))))), ((S O),
    false)) :: ((('c'::('e'::('i'::('l'::[])))), ((S O),
    false)) :: ((('f'::('l'::('o'::('o'::('r'::[]))))), ((S O),
    false)) :: ((('f'::('m'::('o'::('d'::[])))), ((S (S O)),
    false)) :: ((('t'::('r'::('u'::('n'::('c'::[]))))), ((S O),
    false)) :: ((('r'::('o'::('u'::('n'::('d'::[]))))), ((S O),
    false)) :: ((('r'::('i'::('n'::('t'::[])))), ((S O),
    false)) :: ((('n'::('e'::('a'::('r'::('b'::('y'::('i'::('n'::('t'::[]))))))))),
    ((S O),
    false)) :: ((('r'::('e'::('m'::('a'::('i'::('n'::('d'::('e'::('r'::[]))))))))),
    ((S (S O)), false)) :: ((('r'::('e'::('m'::('q'::('u'::('o'::[])))))),
    ((S (S (S O))),
    true)) :: ((('c'::('o'::('p'::('y'::('s'::('i'::('g'::('n'::[])))))))),
    ((S (S O)), false)) :: ((('n'::('a'::('n'::[]))), ((S O),
    false)) :: ((('n'::('e'::('x'::('t'::('a'::('f'::('t'::('e'::('r'::[]))))))))),
    ((S (S O)),
    false)) :: ((('n'::('e'::('x'::('t'::('t'::('o'::('w'::('a'::('r'::('d'::[])))))))))),
    ((S (S O)), false)) :: ((('f'::('d'::('i'::('m'::[])))), ((S (S O)),
    false)) :: ((('f'::('m'::('a'::('x'::[])))), ((S (S O)),
    false)) :: ((('f'::('m'::('i'::('n'::[])))), ((S (S O)),
    false)) :: ((('f'::('a'::('b'::('s'::[])))), ((S O),
    false)) :: ((('a'::('b'::('s'::[]))), ((S O),
    false)) :: ((('f'::('m'::('a'::[]))), ((S (S (S O))),
    false)) :: [])))))))))))))))))))))))))))))))))))))))))))))))))))

(** val sig_of :
    char list -> (char list * (nat * bool)) list -> (nat * bool) option **)

let rec sig_of n0 = function
| [] -> None
| p :: r -> let (a, b) = p in if eqb0 n0 a then Some b else sig_of n0 r

(** val callable_from_query : char list -> bool **)

let callable_from_query n0 =
  match sig_of n0 cmath_sig with
  | Some p -> let (_, b) = p in if b then false else true
  | None -> false

(** val doc_ok : menv -> char list -> bool **)

let doc_ok e n0 =
  match find_row e n0 with
  | Some r ->
    (&&)
      ((&&)
        ((&&) (acceptable n0 r.m_cpp)
          (mem_str ('c'::('m'::('a'::('t'::('h'::[]))))) r.m_inc))
        (eqb0 r.m_ret ('d'::('o'::('u'::('b'::('l'::('e'::[]))))))))
      (callable_from_query n0)
  | None -> false

(** val s_row : mrow -> sexp **)

let s_row r =
  SList ((SAtom r.m_py) :: ((SAtom r.m_cpp) :: ((s_strs r.m_inc) :: ((SAtom
    r.m_ret) :: []))))

(** val audit : menv -> char list list -> sexp **)

let audit e doc =
  SList
    (map (fun n0 -> SList ((SAtom
      n0) :: ((match resolve e n0 with
               | RName q -> SAtom q
               | RCrash ->
                 SAtom ('<'::('c'::('r'::('a'::('s'::('h'::('>'::[])))))))) :: ((
      match find_row e n0 with
      | Some r -> s_row r
      | None -> SList []) :: ((s_bool (doc_ok e n0)) :: ((match sig_of n0
                                                                  cmath_sig with
                                                          | Some p0 ->
                                                            let (k, p) = p0 in
                                                            SList
                                                            ((s_nat k) :: (
                                                            (s_bool p) :: []))
                                                          | None -> SList []) :: []))))))
      doc)

(** val math_rows : mrow list **)

let math_rows =
  { m_py = ('s'::('i'::('n'::[]))); m_cpp =
    ('s'::('t'::('d'::(':'::(':'::('s'::('i'::('n'::[])))))))); m_inc =
    (('c'::('m'::('a'::('t'::('h'::[]))))) :: []); m_ret =
    ('d'::('o'::('u'::('b'::('l'::('e'::[])))))) } :: ({ m_py =
    ('c'::('o'::('s'::[]))); m_cpp =
    ('s'::('t'::('d'::(':'::(':'::('c'::('o'::('s'::[])))))))); m_inc =
    (('c'::('m'::('a'::('t'::('h'::[]))))) :: []); m_ret =
    ('d'::('o'::('u'::('b'::('l'::('e'::[])))))) } :: ({ m_py =
    ('t'::('a'::('n'::[]))); m_cpp =
    ('s'::('t'::('d'::(':'::(':'::('t'::('a'::('n'::[])))))))); m_inc =
    (('c'::('m'::('a'::('t'::('h'::[]))))) :: []); m_ret =
    ('d'::('o'::('u'::('b'::('l'::('e'::[])))))) } :: ({ m_py =
    ('a'::('c'::('o'::('s'::[])))); m_cpp =
    ('s'::('t'::('d'::(':'::(':'::('a'::('c'::('o'::('s'::[])))))))));
    m_inc = (('c'::('m'::('a'::('t'::('h'::[]))))) :: []); m_ret =
    ('d'::('o'::('u'::('b'::('l'::('e'::[])))))) } :: ({ m_py =
    ('a'::('s'::('i'::('n'::[])))); m_cpp =
    ('s'::('t'::('d'::(':'::(':'::('a'::('s'::('i'::('n'::[])))))))));
    m_inc = (('c'::('m'::('a'::('t'::('h'::[]))))) :: []); m_ret =
    ('d'::('o'::('u'::('b'::('l'::('e'::[])))))) } :: ({ m_py =
    ('a'::('t'::('a'::('n'::[])))); m_cpp =
    ('s'::('t'::('d'::(':'::(':'::('a'::('t'::('a'::('n'::[])))))))));
    m_inc = (('c'::('m'::('a'::('t'::('h'::[]))))) :: []); m_ret =
    ('d'::('o'::('u'::('b'::('l'::('e'::[])))))) } :: ({ m_py =
    ('a'::('t'::('a'::('n'::('2'::[]))))); m_cpp =
    ('s'::('t'::('d'::(':'::(':'::('a'::('t'::('a'::('n'::('2'::[]))))))))));
    m_inc = (('c'::('m'::('a'::('t'::('h'::[]))))) :: []); m_ret =
    ('d'::('o'::('u'::('b'::('l'::('e'::[])))))) } :: ({ m_py =
    ('s'::('i'::('n'::('h'::[])))); m_cpp =
    ('s'::('t'::('d'::(':'::(':'::('s'::('i'::('n'::('h'::[])))))))));
    m_inc = (('c'::('m'::('a'::('t'::('h'::[]))))) :: []); m_ret =
    ('d'::('o'::('u'::('b'::('l'::('e'::[])))))) } :: ({ m_py =
    ('c'::('o'::('s'::('h'::[])))); m_cpp =
    ('s'::('t'::('d'::(':'::(':'::('c'::('o'::('s'::('h'::[])))))))));
    m_inc = (('c'::('m'::('a'::('t'::('h'::[]))))) :: []); m_ret =
    ('d'::('o'::('u'::('b'::('l'::('e'::[])))))) } :: ({ m_py =
    ('t'::('a'::('n'::('h'::[])))); m_cpp =
    ('s'::('t'::('d'::(':'::(':'::('t'::('a'::('n'::('h'::[])))))))));
    m_inc = (('c'::('m'::('a'::('t'::('h'::[]))))) :: []); m_ret =
    ('d'::('o'::('u'::('b'::('l'::('e'::[])))))) } :: ({ m_py =
    ('a'::('s'::('i'::('n'::('h'::[]))))); m_cpp =
    ('s'::('t'::('d'::(':'::(':'::('a'::('s'::('i'::('n'::('h'::[]))))))))));
    m_inc = (('c'::('m'::('a'::('t'::('h'::[]))))) :: []); m_ret =
    ('d'::('o'::('u'::('b'::('l'::('e'::[])))))) } :: ({ m_py =
    ('a'::('c'::('o'::('s'::('h'::[]))))); m_cpp =
    ('s'::('t'::('d'::(':'::(':'::('a'::('c'::('o'::('s'::('h'::[]))))))))));
    m_inc = (('c'::('m'::('a'::('t'::('h'::[]))))) :: []); m_ret =
    ('d'::('o'::('u'::('b'::('l'::('e'::[])))))) } :: ({ m_py =
    ('a'::('t'::('a'::('n'::('h'::[]))))); m_cpp =
    ('s'::('t'::('d'::(':'::(':'::('a'::('t'::('a'::('n'::('h'::[]))))))))));
    m_inc = (('c'::('m'::('a'::('t'::('h'::[]))))) :: []); m_ret =
    ('d'::('o'::('u'::('b'::('l'::('e'::[])))))) } :: ({ m_py =
    ('e'::('x'::('p'::[]))); m_cpp =
    ('s'::('t'::('d'::(':'::(':'::('e'::('x'::('p'::[])))))))); m_inc =
    (('c'::('m'::('a'::('t'::('h'::[]))))) :: []); m_ret =
    ('d'::('o'::('u'::('b'::('l'::('e'::[])))))) } :: ({ m_py =
    ('l'::('d'::('e'::('x'::('p'::[]))))); m_cpp =
    ('s'::('t'::('d'::(':'::(':'::('l'::('d'::('e'::('x'::('p'::[]))))))))));
    m_inc = (('c'::('m'::('a'::('t'::('h'::[]))))) :: []); m_ret =
    ('d'::('o'::('u'::('b'::('l'::('e'::[])))))) } :: ({ m_py =
    ('l'::('o'::('g'::[]))); m_cpp =
    ('s'::('t'::('d'::(':'::(':'::('l'::('o'::('g'::[])))))))); m_inc =
    (('c'::('m'::('a'::('t'::('h'::[]))))) :: []); m_ret =
    ('d'::('o'::('u'::('b'::('l'::('e'::[])))))) } :: ({ m_py =
    ('l'::('n'::[])); m_cpp =
    ('s'::('t'::('d'::(':'::(':'::('l'::('o'::('g'::[])))))))); m_inc =
    (('c'::('m'::('a'::('t'::('h'::[]))))) :: []); m_ret =
    ('d'::('o'::('u'::('b'::('l'::('e'::[])))))) } :: ({ m_py =
    ('l'::('o'::('g'::('1'::('0'::[]))))); m_cpp =
    ('s'::('t'::('d'::(':'::(':'::('l'::('o'::('g'::('1'::('0'::[]))))))))));
    m_inc = (('c'::('m'::('a'::('t'::('h'::[]))))) :: []); m_ret =
    ('d'::('o'::('u'::('b'::('l'::('e'::[])))))) } :: ({ m_py =
    ('e'::('x'::('p'::('2'::[])))); m_cpp =
    ('s'::('t'::('d'::(':'::(':'::('e'::('x'::('p'::('2'::[])))))))));
    m_inc = (('c'::('m'::('a'::('t'::('h'::[]))))) :: []); m_ret =
    ('d'::('o'::('u'::('b'::('l'::('e'::[])))))) } :: ({ m_py =
    ('e'::('x'::('p'::('m'::('1'::[]))))); m_cpp =
    ('s'::('t'::('d'::(':'::(':'::('e'::('x'::('p'::('m'::('1'::[]))))))))));
    m_inc = (('c'::('m'::('a'::('t'::('h'::[]))))) :: []); m_ret =
    ('d'::('o'::('u'::('b'::('l'::('e'::[])))))) } :: ({ m_py =
    ('i'::('l'::('o'::('g'::('b'::[]))))); m_cpp =
    ('s'::('t'::('d'::(':'::(':'::('i'::('l'::('o'::('g'::('b'::[]))))))))));
    m_inc = (('c'::('m'::('a'::('t'::('h'::[]))))) :: []); m_ret =
    ('d'::('o'::('u'::('b'::('l'::('e'::[])))))) } :: ({ m_py =
    ('l'::('o'::('g'::('1'::('p'::[]))))); m_cpp =
    ('s'::('t'::('d'::(':'::(':'::('l'::('o'::('g'::('1'::('p'::[]))))))))));
    m_inc = (('c'::('m'::('a'::('t'::('h'::[]))))) :: []); m_ret =
    ('d'::('o'::('u'::('b'::('l'::('e'::[])))))) } :: ({ m_py =
    ('l'::('o'::('g'::('2'::[])))); m_cpp =
    ('s'::('t'::('d'::(':'::(':'::('l'::('o'::('g'::('2'::[])))))))));
    m_inc = (('c'::('m'::('a'::('t'::('h'::[]))))) :: []); m_ret =
    ('d'::('o'::('u'::('b'::('l'::('e'::[])))))) } :: ({ m_py =
    ('s'::('c'::('a'::('l'::('b'::('n'::[])))))); m_cpp =
    ('s'::('t'::('d'::(':'::(':'::('s'::('c'::('a'::('l'::('b'::('n'::[])))))))))));
    m_inc = (('c'::('m'::('a'::('t'::('h'::[]))))) :: []); m_ret =
    ('d'::('o'::('u'::('b'::('l'::('e'::[])))))) } :: ({ m_py =
    ('s'::('c'::('a'::('l'::('b'::('l'::('n'::[]))))))); m_cpp =
    ('s'::('t'::('d'::(':'::(':'::('s'::('c'::('a'::('l'::('b'::('l'::('n'::[]))))))))))));
    m_inc = (('c'::('m'::('a'::('t'::('h'::[]))))) :: []); m_ret =
    ('d'::('o'::('u'::('b'::('l'::('e'::[])))))) } :: ({ m_py =
    ('p'::('o'::('w'::[]))); m_cpp =
    ('s'::('t'::('d'::(':'::(':'::('p'::('o'::('w'::[])))))))); m_inc =
    (('c'::('m'::('a'::('t'::('h'::[]))))) :: []); m_ret =
    ('d'::('o'::('u'::('b'::('l'::('e'::[])))))) } :: ({ m_py =
    ('s'::('q'::('r'::('t'::[])))); m_cpp =
    ('s'::('t'::('d'::(':'::(':'::('s'::('q'::('r'::('t'::[])))))))));
    m_inc = (('c'::('m'::('a'::('t'::('h'::[]))))) :: []); m_ret =
    ('d'::('o'::('u'::('b'::('l'::('e'::[])))))) } :: ({ m_py =
    ('c'::('b'::('r'::('t'::[])))); m_cpp =
    ('s'::('t'::('d'::(':'::(':'::('c'::('b'::('r'::('t'::[])))))))));
    m_inc = (('c'::('m'::('a'::('t'::('h'::[]))))) :: []); m_ret =
    ('d'::('o'::('u'::('b'::('l'::('e'::[])))))) } :: ({ m_py =
    ('h'::('y'::('p'::('o'::('t'::[]))))); m_cpp =
    ('s'::('t'::('d'::(':'::(':'::('h'::('y'::('p'::('o'::('t'::[]))))))))));
    m_inc = (('c'::('m'::('a'::('t'::('h'::[]))))) :: []); m_ret =
    ('d'::('o'::('u'::('b'::('l'::('e'::[])))))) } :: ({ m_py =
    ('e'::('r'::('f'::[]))); m_cpp =
    ('s'::('t'::('d'::(':'::(':'::('e'::('r'::('f'::[])))))))); m_inc =
    (('c'::('m'::('a'::('t'::('h'::[]))))) :: []); m_ret =
    ('d'::('o'::('u'::('b'::('l'::('e'::[])))))) } :: ({ m_py =
    ('e'::('r'::('f'::('c'::[])))); m_cpp =
    ('s'::('t'::('d'::(':'::(':'::('e'::('r'::('f'::('c'::[])))))))));
    m_inc = (('c'::('m'::('a'::('t'::('h'::[]))))) :: []); m_ret =
    ('d'::('o'::('u'::('b'::('l'::('e'::[])))))) } :: ({ m_py =
    ('t'::('g'::('a'::('m'::('m'::('a'::[])))))); m_cpp =
    ('s'::('t'::('d'::(':'::(':'::('t'::('g'::('a'::('m'::('m'::('a'::[])))))))))));
    m_inc = (('c'::('m'::('a'::('t'::('h'::[]))))) :: []); m_ret =
    ('d'::('o'::('u'::('b'::('l'::('e'::[])))))) } :: ({ m_py =
    ('l'::('g'::('a'::('m'::('m'::('a'::[])))))); m_cpp =
    ('s'::('t'::('d'::(':'::(':'::('l'::('g'::('a'::('m'::('m'::('a'::[])))))))))));
    m_inc = (('c'::('m'::('a'::('t'::('h'::[]))))) :: []); m_ret =
    ('d'::('o'::('u'::('b'::('l'::('e'::[])))))) } :: ({ m_py =
    ('c'::('e'::('i'::('l'::[])))); m_cpp =
    ('s'::('t'::('d'::(':'::(':'::('c'::('e'::('i'::('l'::[])))))))));
    m_inc = (('c'::('m'::('a'::('t'::('h'::[]))))) :: []); m_ret =
    ('d'::('o'::('u'::('b'::('l'::('e'::[])))))) } :: ({ m_py =
    ('f'::('l'::('o'::('o'::('r'::[]))))); m_cpp =
    ('s'::('t'::('d'::(':'::(':'::('f'::('l'::('o'::('o'::('r'::[]))))))))));
    m_inc = (('c'::('m'::('a'::('t'::('h'::[]))))) :: []); m_ret =
    ('d'::('o'::('u'::('b'::('l'::('e'::[])))))) } :: ({ m_py =
    ('f'::('m'::('o'::('d'::[])))); m_cpp =
    ('s'::('t'::('d'::(':'::(':'::('f'::('m'::('o'::('d'::[])))))))));
    m_inc = (('c'::('m'::('a'::('t'::('h'::[]))))) :: []); m_ret =
    ('d'::('o'::('u'::('b'::('l'::('e'::[])))))) } :: ({ m_py =
    ('t'::('r'::('u'::('n'::('c'::[]))))); m_cpp =
    ('s'::('t'::('d'::(':'::(':'::('t'::('r'::('u'::('n'::('c'::[]))))))))));
    m_inc = (('c'::('m'::('a'::('t'::('h'::[]))))) :: []); m_ret =
    ('d'::('o'::('u'::('b'::('l'::('e'::[])))))) } :: ({ m_py =
    ('r'::('o'::('u'::('n'::('d'::[]))))); m_cpp =
    ('s'::('t'::('d'::(':'::(':'::('r'::('o'::('u'::('n'::('d'::[]))))))))));
    m_inc = (('c'::('m'::('a'::('t'::('h'::[]))))) :: []); m_ret =
    ('d'::('o'::('u'::('b'::('l'::('e'::[])))))) } :: ({ m_py =
    ('r'::('i'::('n'::('t'::[])))); m_cpp =
    ('s'::('t'::('d'::(':'::(':'::('r'::('i'::('n'::('t'::[])))))))));
    m_inc = (('c'::('m'::('a'::('t'::('h'::[]))))) :: []); m_ret =
    ('d'::('o'::('u'::('b'::('l'::('e'::[])))))) } :: ({ m_py =
    ('n'::('e'::('a'::('r'::('b'::('y'::('i'::('n'::('t'::[])))))))));
    m_cpp =
    ('s'::('t'::('d'::(':'::(':'::('n'::('e'::('a'::('r'::('b'::('y'::('i'::('n'::('t'::[]))))))))))))));
    m_inc = (('c'::('m'::('a'::('t'::('h'::[]))))) :: []); m_ret =
    ('d'::('o'::('u'::('b'::('l'::('e'::[])))))) } :: ({ m_py =
    ('r'::('e'::('m'::('a'::('i'::('n'::('d'::('e'::('r'::[])))))))));
    m_cpp =
    ('s'::('t'::('d'::(':'::(':'::('r'::('e'::('m'::('a'::('i'::('n'::('d'::('e'::('r'::[]))))))))))))));
    m_inc = (('c'::('m'::('a'::('t'::('h'::[]))))) :: []); m_ret =
    ('d'::('o'::('u'::('b'::('l'::('e'::[])))))) } :: ({ m_py =
    ('r'::('e'::('m'::('q'::('u'::('o'::[])))))); m_cpp =
    ('s'::('t'::('d'::(':'::(':'::('r'::('e'::('m'::('q'::('u'::('o'::[])))))))))));
    m_inc = (('c'::('m'::('a'::('t'::('h'::[]))))) :: []); m_ret =
    ('d'::('o'::('u'::('b'::('l'::('e'::[])))))) } :: ({ m_py =
    ('c'::('o'::('p'::('y'::('s'::('i'::('g'::('n'::[])))))))); m_cpp =
    ('s'::('t'::('d'::(':'::(':'::('c'::('o'::('p'::('y'::('s'::('i'::('g'::('n'::[])))))))))))));
    m_inc = (('c'::('m'::('a'::('t'::('h'::[]))))) :: []); m_ret =
    ('d'::('o'::('u'::('b'::('l'::('e'::[])))))) } :: ({ m_py =
    ('n'::('a'::('n'::[]))); m_cpp =
    ('s'::('t'::('d'::(':'::(':'::('n'::('a'::('n'::[])))))))); m_inc =
    (('c'::('m'::('a'::('t'::('h'::[]))))) :: []); m_ret =
    ('d'::('o'::('u'::('b'::('l'::('e'::[])))))) } :: ({ m_py =
    ('n'::('e'::('x'::('t'::('a'::('f'::('t'::('e'::('r'::[])))))))));
    m_cpp =
    ('s'::('t'::('d'::(':'::(':'::('n'::('e'::('x'::('t'::('a'::('f'::('t'::('e'::('r'::[]))))))))))))));
    m_inc = (('c'::('m'::('a'::('t'::('h'::[]))))) :: []); m_ret =
    ('d'::('o'::('u'::('b'::('l'::('e'::[])))))) } :: ({ m_py =
    ('n'::('e'::('x'::('t'::('t'::('o'::('w'::('a'::('r'::('d'::[]))))))))));
    m_cpp =
    ('s'::('t'::('d'::(':'::(':'::('n'::('e'::('x'::('t'::('t'::('o'::('w'::('a'::('r'::('d'::[])))))))))))))));
    m_inc = (('c'::('m'::('a'::('t'::('h'::[]))))) :: []); m_ret =
    ('d'::('o'::('u'::('b'::('l'::('e'::[])))))) } :: ({ m_py =
    ('f'::('d'::('i'::('m'::[])))); m_cpp =
    ('s'::('t'::('d'::(':'::(':'::('f'::('d'::('i'::('m'::[])))))))));
    m_inc = (('c'::('m'::('a'::('t'::('h'::[]))))) :: []); m_ret =
    ('d'::('o'::('u'::('b'::('l'::('e'::[])))))) } :: ({ m_py =
    ('f'::('m'::('a'::('x'::[])))); m_cpp =
    ('s'::('t'::('d'::(':'::(':'::('f'::('m'::('a'::('x'::[])))))))));
    m_inc = (('c'::('m'::('a'::('t'::('h'::[]))))) :: []); m_ret =
    ('d'::('o'::('u'::('b'::('l'::('e'::[])))))) } :: ({ m_py =
    ('f'::('m'::('i'::('n'::[])))); m_cpp =
    ('s'::('t'::('d'::(':'::(':'::('f'::('m'::('i'::('n'::[])))))))));
    m_inc = (('c'::('m'::('a'::('t'::('h'::[]))))) :: []); m_ret =
    ('d'::('o'::('u'::('b'::('l'::('e'::[])))))) } :: ({ m_py =
    ('f'::('a'::('b'::('s'::[])))); m_cpp =
    ('s'::('t'::('d'::(':'::(':'::('f'::('a'::('b'::('s'::[])))))))));
    m_inc = (('c'::('m'::('a'::('t'::('h'::[]))))) :: []); m_ret =
    ('d'::('o'::('u'::('b'::('l'::('e'::[])))))) } :: ({ m_py =
    ('a'::('b'::('s'::[]))); m_cpp =
    ('s'::('t'::('d'::(':'::(':'::('f'::('a'::('b'::('s'::[])))))))));
    m_inc = (('c'::('m'::('a'::('t'::('h'::[]))))) :: []); m_ret =
    ('d'::('o'::('u'::('b'::('l'::('e'::[])))))) } :: ({ m_py =
    ('f'::('m'::('a'::[]))); m_cpp =
    ('s'::('t'::('d'::(':'::(':'::('f'::('m'::('a'::[])))))))); m_inc =
    (('c'::('m'::('a'::('t'::('h'::[]))))) :: []); m_ret =
    ('d'::('o'::('u'::('b'::('l'::('e'::[])))))) } :: ({ m_py =
    ('b'::('u'::('i'::('l'::('t'::('i'::('n'::('s'::('.'::('a'::('b'::('s'::[]))))))))))));
    m_cpp = ('s'::('t'::('d'::(':'::(':'::('a'::('b'::('s'::[]))))))));
    m_inc = (('c'::('m'::('a'::('t'::('h'::[]))))) :: []); m_ret =
    ('d'::('o'::('u'::('b'::('l'::('e'::[])))))) } :: ({ m_py =
    ('b'::('u'::('i'::('l'::('t'::('i'::('n'::('s'::('.'::('p'::('o'::('w'::[]))))))))))));
    m_cpp = ('s'::('t'::('d'::(':'::(':'::('p'::('o'::('w'::[]))))))));
    m_inc = (('c'::('m'::('a'::('t'::('h'::[]))))) :: []); m_ret =
    ('d'::('o'::('u'::('b'::('l'::('e'::[])))))) } :: ({ m_py =
    ('b'::('u'::('i'::('l'::('t'::('i'::('n'::('s'::('.'::('r'::('o'::('u'::('n'::('d'::[]))))))))))))));
    m_cpp =
    ('s'::('t'::('d'::(':'::(':'::('r'::('o'::('u'::('n'::('d'::[]))))))))));
    m_inc = (('c'::('m'::('a'::('t'::('h'::[]))))) :: []); m_ret =
    ('d'::('o'::('u'::('b'::('l'::('e'::[])))))) } :: []))))))))))))))))))))))))))))))))))))))))))))))))))))))

(** val module_names : char list list **)

let module_names =
  ('a'::('s'::('t'::[]))) :: (('n'::('a'::('m'::('e'::('d'::('t'::('u'::('p'::('l'::('e'::[])))))))))) :: (('F'::('u'::('n'::('c'::('t'::('i'::('o'::('n'::('A'::('S'::('T'::[]))))))))))) :: (('f'::('i'::('n'::('d'::('_'::('k'::('n'::('o'::('w'::('n'::('_'::('f'::('u'::('n'::('c'::('t'::('i'::('o'::('n'::('s'::[])))))))))))))))))))) :: (('a'::('d'::('d'::('_'::('f'::('u'::('n'::('c'::('t'::('i'::('o'::('n'::('_'::('m'::('a'::('p'::('p'::('i'::('n'::('g'::[])))))))))))))))))))) :: (('f'::('u'::('n'::('c'::('t'::('i'::('o'::('n'::('s'::('_'::('t'::('o'::('_'::('r'::('e'::('p'::('l'::('a'::('c'::('e'::[])))))))))))))))))))) :: (('c'::('p'::('p'::('_'::('f'::('u'::('n'::('c'::('t'::('i'::('o'::('n'::[])))))))))))) :: []))))))

(** val builtin_names : (char list * char list) list **)

let builtin_names =
  (('A'::('r'::('i'::('t'::('h'::('m'::('e'::('t'::('i'::('c'::('E'::('r'::('r'::('o'::('r'::[]))))))))))))))),
    ('b'::('u'::('i'::('l'::('t'::('i'::('n'::('s'::[]))))))))) :: ((('A'::('s'::('s'::('e'::('r'::('t'::('i'::('o'::('n'::('E'::('r'::('r'::('o'::('r'::[])))))))))))))),
    ('b'::('u'::('i'::('l'::('t'::('i'::('n'::('s'::[]))))))))) :: ((('A'::('t'::('t'::('r'::('i'::('b'::('u'::('t'::('e'::('E'::('r'::('r'::('o'::('r'::[])))))))))))))),
    ('b'::('u'::('i'::('l'::('t'::('i'::('n'::('s'::[]))))))))) :: ((('B'::('a'::('s'::('e'::('E'::('x'::('c'::('e'::('p'::('t'::('i'::('o'::('n'::[]))))))))))))),
    ('b'::('u'::('i'::('l'::('t'::('i'::('n'::('s'::[]))))))))) :: ((('B'::('a'::('s'::('e'::('E'::('x'::('c'::('e'::('p'::('t'::('i'::('o'::('n'::('G'::('r'::('o'::('u'::('p'::[])))))))))))))))))),
    ('b'::('u'::('i'::('l'::('t'::('i'::('n'::('s'::[]))))))))) :: ((('B'::('l'::('o'::('c'::('k'::('i'::('n'::('g'::('I'::('O'::('E'::('r'::('r'::('o'::('r'::[]))))))))))))))),
    ('b'::('u'::('i'::('l'::('t'::('i'::('n'::('s'::[]))))))))) :: ((('B'::('r'::('o'::('k'::('e'::('n'::('P'::('i'::('p'::('e'::('E'::('r'::('r'::('o'::('r'::[]))))))))))))))),
    ('b'::('u'::('i'::('l'::('t'::('i'::('n'::('s'::[]))))))))) :: ((('B'::('u'::('f'::('f'::('e'::('r'::('E'::('r'::('r'::('o'::('r'::[]))))))))))),
    ('b'::('u'::('i'::('l'::('t'::('i'::('n'::('s'::[]))))))))) :: ((('B'::('y'::('t'::('e'::('s'::('W'::('a'::('r'::('n'::('i'::('n'::('g'::[])))))))))))),
    ('b'::('u'::('i'::('l'::('t'::('i'::('n'::('s'::[]))))))))) :: ((('C'::('h'::('i'::('l'::('d'::('P'::('r'::('o'::('c'::('e'::('s'::('s'::('E'::('r'::('r'::('o'::('r'::[]))))))))))))))))),
    ('b'::('u'::('i'::('l'::('t'::('i'::('n'::('s'::[]))))))))) :: ((('C'::('o'::('n'::('n'::('e'::('c'::('t'::('i'::('o'::('n'::('A'::('b'::('o'::('r'::('t'::('e'::('d'::('E'::('r'::('r'::('o'::('r'::[])))))))))))))))))))))),
    ('b'::('u'::('i'::('l'::('t'::('i'::('n'::('s'::[]))))))))) :: ((('C'::('o'::('n'::('n'::('e'::('c'::('t'::('i'::('o'::('n'::('E'::('r'::('r'::('o'::('r'::[]))))))))))))))),
    ('b'::('u'::('i'::('l'::('t'::('i'::('n'::('s'::[]))))))))) :: ((('C'::('o'::('n'::('n'::('e'::('c'::('t'::('i'::('o'::('n'::('R'::('e'::('f'::('u'::('s'::('e'::('d'::('E'::('r'::('r'::('o'::('r'::[])))))))))))))))))))))),
    ('b'::('u'::('i'::('l'::('t'::('i'::('n'::('s'::[]))))))))) :: ((('C'::('o'::('n'::('n'::('e'::('c'::('t'::('i'::('o'::('n'::('R'::('e'::('s'::('e'::('t'::('E'::('r'::('r'::('o'::('r'::[])))))))))))))))))))),
    ('b'::('u'::('i'::('l'::('t'::('i'::('n'::('s'::[]))))))))) :: ((('D'::('e'::('p'::('r'::('e'::('c'::('a'::('t'::('i'::('o'::('n'::('W'::('a'::('r'::('n'::('i'::('n'::('g'::[])))))))))))))))))),
    ('b'::('u'::('i'::('l'::('t'::('i'::('n'::('s'::[]))))))))) :: ((('E'::('O'::('F'::('E'::('r'::('r'::('o'::('r'::[])))))))),
    ('b'::('u'::('i'::('l'::('t'::('i'::('n'::('s'::[]))))))))) :: ((('E'::('l'::('l'::('i'::('p'::('s'::('i'::('s'::[])))))))),
    ('-'::[])) :: ((('E'::('n'::('c'::('o'::('d'::('i'::('n'::('g'::('W'::('a'::('r'::('n'::('i'::('n'::('g'::[]))))))))))))))),
    ('b'::('u'::('i'::('l'::('t'::('i'::('n'::('s'::[]))))))))) :: ((('E'::('n'::('v'::('i'::('r'::('o'::('n'::('m'::('e'::('n'::('t'::('E'::('r'::('r'::('o'::('r'::[])))))))))))))))),
    ('b'::('u'::('i'::('l'::('t'::('i'::('n'::('s'::[]))))))))) :: ((('E'::('x'::('c'::('e'::('p'::('t'::('i'::('o'::('n'::[]))))))))),
    ('b'::('u'::('i'::('l'::('t'::('i'::('n'::('s'::[]))))))))) :: ((('E'::('x'::('c'::('e'::('p'::('t'::('i'::('o'::('n'::('G'::('r'::('o'::('u'::('p'::[])))))))))))))),
    ('b'::('u'::('i'::('l'::('t'::('i'::('n'::('s'::[]))))))))) :: ((('F'::('a'::('l'::('s'::('e'::[]))))),
    ('-'::[])) :: ((('F'::('i'::('l'::('e'::('E'::('x'::('i'::('s'::('t'::('s'::('E'::('r'::('r'::('o'::('r'::[]))))))))))))))),
    ('b'::('u'::('i'::('l'::('t'::('i'::('n'::('s'::[]))))))))) :: ((('F'::('i'::('l'::('e'::('N'::('o'::('t'::('F'::('o'::('u'::('n'::('d'::('E'::('r'::('r'::('o'::('r'::[]))))))))))))))))),
    ('b'::('u'::('i'::('l'::('t'::('i'::('n'::('s'::[]))))))))) :: ((('F'::('l'::('o'::('a'::('t'::('i'::('n'::('g'::('P'::('o'::('i'::('n'::('t'::('E'::('r'::('r'::('o'::('r'::[])))))))))))))))))),
    ('b'::('u'::('i'::('l'::('t'::('i'::('n'::('s'::[]))))))))) :: ((('F'::('u'::('t'::('u'::('r'::('e'::('W'::('a'::('r'::('n'::('i'::('n'::('g'::[]))))))))))))),
    ('b'::('u'::('i'::('l'::('t'::('i'::('n'::('s'::[]))))))))) :: ((('G'::('e'::('n'::('e'::('r'::('a'::('t'::('o'::('r'::('E'::('x'::('i'::('t'::[]))))))))))))),
    ('b'::('u'::('i'::('l'::('t'::('i'::('n'::('s'::[]))))))))) :: ((('I'::('O'::('E'::('r'::('r'::('o'::('r'::[]))))))),
    ('b'::('u'::('i'::('l'::('t'::('i'::('n'::('s'::[]))))))))) :: ((('I'::('m'::('p'::('o'::('r'::('t'::('E'::('r'::('r'::('o'::('r'::[]))))))))))),
    ('b'::('u'::('i'::('l'::('t'::('i'::('n'::('s'::[]))))))))) :: ((('I'::('m'::('p'::('o'::('r'::('t'::('W'::('a'::('r'::('n'::('i'::('n'::('g'::[]))))))))))))),
    ('b'::('u'::('i'::('l'::('t'::('i'::('n'::('s'::[]))))))))) :: ((('I'::('n'::('d'::('e'::('n'::('t'::('a'::('t'::('i'::('o'::('n'::('E'::('r'::('r'::('o'::('r'::[])))))))))))))))),
    ('b'::('u'::('i'::('l'::('t'::('i'::('n'::('s'::[]))))))))) :: ((('I'::('n'::('d'::('e'::('x'::('E'::('r'::('r'::('o'::('r'::[])))))))))),
    ('b'::('u'::('i'::('l'::('t'::('i'::('n'::('s'::[]))))))))) :: ((('I'::('n'::('t'::('e'::('r'::('r'::('u'::('p'::('t'::('e'::('d'::('E'::('r'::('r'::('o'::('r'::[])))))))))))))))),
    ('b'::('u'::('i'::('l'::('t'::('i'::('n'::('s'::[]))))))))) :: ((('I'::('s'::('A'::('D'::('i'::('r'::('e'::('c'::('t'::('o'::('r'::('y'::('E'::('r'::('r'::('o'::('r'::[]))))))))))))))))),
    ('b'::('u'::('i'::('l'::('t'::('i'::('n'::('s'::[]))))))))) :: ((('K'::('e'::('y'::('E'::('r'::('r'::('o'::('r'::[])))))))),
    ('b'::('u'::('i'::('l'::('t'::('i'::('n'::('s'::[]))))))))) :: ((('K'::('e'::('y'::('b'::('o'::('a'::('r'::('d'::('I'::('n'::('t'::('e'::('r'::('r'::('u'::('p'::('t'::[]))))))))))))))))),
    ('b'::('u'::('i'::('l'::('t'::('i'::('n'::('s'::[]))))))))) :: ((('L'::('o'::('o'::('k'::('u'::('p'::('E'::('r'::('r'::('o'::('r'::[]))))))))))),
    ('b'::('u'::('i'::('l'::('t'::('i'::('n'::('s'::[]))))))))) :: ((('M'::('e'::('m'::('o'::('r'::('y'::('E'::('r'::('r'::('o'::('r'::[]))))))))))),
    ('b'::('u'::('i'::('l'::('t'::('i'::('n'::('s'::[]))))))))) :: ((('M'::('o'::('d'::('u'::('l'::('e'::('N'::('o'::('t'::('F'::('o'::('u'::('n'::('d'::('E'::('r'::('r'::('o'::('r'::[]))))))))))))))))))),
    ('b'::('u'::('i'::('l'::('t'::('i'::('n'::('s'::[]))))))))) :: ((('N'::('a'::('m'::('e'::('E'::('r'::('r'::('o'::('r'::[]))))))))),
    ('b'::('u'::('i'::('l'::('t'::('i'::('n'::('s'::[]))))))))) :: ((('N'::('o'::('n'::('e'::[])))),
    ('-'::[])) :: ((('N'::('o'::('t'::('A'::('D'::('i'::('r'::('e'::('c'::('t'::('o'::('r'::('y'::('E'::('r'::('r'::('o'::('r'::[])))))))))))))))))),
    ('b'::('u'::('i'::('l'::('t'::('i'::('n'::('s'::[]))))))))) :: ((('N'::('o'::('t'::('I'::('m'::('p'::('l'::('e'::('m'::('e'::('n'::('t'::('e'::('d'::[])))))))))))))),
    ('-'::[])) :: ((('N'::('o'::('t'::('I'::('m'::('p'::('l'::('e'::('m'::('e'::('n'::('t'::('e'::('d'::('E'::('r'::('r'::('o'::('r'::[]))))))))))))))))))),
    ('b'::('u'::('i'::('l'::('t'::('i'::('n'::('s'::[]))))))))) :: ((('O'::('S'::('E'::('r'::('r'::('o'::('r'::[]))))))),
    ('b'::('u'::('i'::('l'::('t'::('i'::('n'::('s'::[]))))))))) :: ((('O'::('v'::('e'::('r'::('f'::('l'::('o'::('w'::('E'::('r'::('r'::('o'::('r'::[]))))))))))))),
    ('b'::('u'::('i'::('l'::('t'::('i'::('n'::('s'::[]))))))))) :: ((('P'::('e'::('n'::('d'::('i'::('n'::('g'::('D'::('e'::('p'::('r'::('e'::('c'::('a'::('t'::('i'::('o'::('n'::('W'::('a'::('r'::('n'::('i'::('n'::('g'::[]))))))))))))))))))))))))),
    ('b'::('u'::('i'::('l'::('t'::('i'::('n'::('s'::[]))))))))) :: ((('P'::('e'::('r'::('m'::('i'::('s'::('s'::('i'::('o'::('n'::('E'::('r'::('r'::('o'::('r'::[]))))))))))))))),
    ('b'::('u'::('i'::('l'::('t'::('i'::('n'::('s'::[]))))))))) :: ((('P'::('r'::('o'::('c'::('e'::('s'::('s'::('L'::('o'::('o'::('k'::('u'::('p'::('E'::('r'::('r'::('o'::('r'::[])))))))))))))))))),
    ('b'::('u'::('i'::('l'::('t'::('i'::('n'::('s'::[]))))))))) :: ((('R'::('e'::('c'::('u'::('r'::('s'::('i'::('o'::('n'::('E'::('r'::('r'::('o'::('r'::[])))))))))))))),
    ('b'::('u'::('i'::('l'::('t'::('i'::('n'::('s'::[]))))))))) :: ((('R'::('e'::('f'::('e'::('r'::('e'::('n'::('c'::('e'::('E'::('r'::('r'::('o'::('r'::[])))))))))))))),
    ('b'::('u'::('i'::('l'::('t'::('i'::('n'::('s'::[]))))))))) :: ((('R'::('e'::('s'::('o'::('u'::('r'::('c'::('e'::('W'::('a'::('r'::('n'::('i'::('n'::('g'::[]))))))))))))))),
    ('b'::('u'::('i'::('l'::('t'::('i'::('n'::('s'::[]))))))))) :: ((('R'::('u'::('n'::('t'::('i'::('m'::('e'::('E'::('r'::('r'::('o'::('r'::[])))))))))))),
    ('b'::('u'::('i'::('l'::('t'::('i'::('n'::('s'::[]))))))))) :: ((('R'::('u'::('n'::('t'::('i'::('m'::('e'::('W'::('a'::('r'::('n'::('i'::('n'::('g'::[])))))))))))))),
    ('b'::('u'::('i'::('l'::('t'::('i'::('n'::('s'::[]))))))))) :: ((('S'::('t'::('o'::('p'::('A'::('s'::('y'::('n'::('c'::('I'::('t'::('e'::('r'::('a'::('t'::('i'::('o'::('n'::[])))))))))))))))))),
    ('b'::('u'::('i'::('l'::('t'::('i'::('n'::('s'::[]))))))))) :: ((('S'::('t'::('o'::('p'::('I'::('t'::('e'::('r'::('a'::('t'::('i'::('o'::('n'::[]))))))))))))),
    ('b'::('u'::('i'::('l'::('t'::('i'::('n'::('s'::[]))))))))) :: ((('S'::('y'::('n'::('t'::('a'::('x'::('E'::('r'::('r'::('o'::('r'::[]))))))))))),
    ('b'::('u'::('i'::('l'::('t'::('i'::('n'::('s'::[]))))))))) :: ((('S'::('y'::('n'::('t'::('a'::('x'::('W'::('a'::('r'::('n'::('i'::('n'::('g'::[]))))))))))))),
    ('b'::('u'::('i'::('l'::('t'::('i'::('n'::('s'::[]))))))))) :: ((('S'::('y'::('s'::('t'::('e'::('m'::('E'::('r'::('r'::('o'::('r'::[]))))))))))),
    ('b'::('u'::('i'::('l'::('t'::('i'::('n'::('s'::[]))))))))) :: ((('S'::('y'::('s'::('t'::('e'::('m'::('E'::('x'::('i'::('t'::[])))))))))),
    ('b'::('u'::('i'::('l'::('t'::('i'::('n'::('s'::[]))))))))) :: ((('T'::('a'::('b'::('E'::('r'::('r'::('o'::('r'::[])))))))),
    ('b'::('u'::('i'::('l'::('t'::('i'::('n'::('s'::[]))))))))) :: ((('T'::('i'::('m'::('e'::('o'::('u'::('t'::('E'::('r'::('r'::('o'::('r'::[])))))))))))),
    ('b'::('u'::('i'::('l'::('t'::('i'::('n'::('s'::[]))))))))) :: ((('T'::('r'::('u'::('e'::[])))),
    ('-'::[])) :: ((('T'::('y'::('p'::('e'::('E'::('r'::('r'::('o'::('r'::[]))))))))),
    ('b'::('u'::('i'::('l'::('t'::('i'::('n'::('s'::[]))))))))) :: ((('U'::('n'::('b'::('o'::('u'::('n'::('d'::('L'::('o'::('c'::('a'::('l'::('E'::('r'::('r'::('o'::('r'::[]))))))))))))))))),
    ('b'::('u'::('i'::('l'::('t'::('i'::('n'::('s'::[]))))))))) :: ((('U'::('n'::('i'::('c'::('o'::('d'::('e'::('D'::('e'::('c'::('o'::('d'::('e'::('E'::('r'::('r'::('o'::('r'::[])))))))))))))))))),
    ('b'::('u'::('i'::('l'::('t'::('i'::('n'::('s'::[]))))))))) :: ((('U'::('n'::('i'::('c'::('o'::('d'::('e'::('E'::('n'::('c'::('o'::('d'::('e'::('E'::('r'::('r'::('o'::('r'::[])))))))))))))))))),
    ('b'::('u'::('i'::('l'::('t'::('i'::('n'::('s'::[]))))))))) :: ((('U'::('n'::('i'::('c'::('o'::('d'::('e'::('E'::('r'::('r'::('o'::('r'::[])))))))))))),
    ('b'::('u'::('i'::('l'::('t'::('i'::('n'::('s'::[]))))))))) :: ((('U'::('n'::('i'::('c'::('o'::('d'::('e'::('T'::('r'::('a'::('n'::('s'::('l'::('a'::('t'::('e'::('E'::('r'::('r'::('o'::('r'::[]))))))))))))))))))))),
    ('b'::('u'::('i'::('l'::('t'::('i'::('n'::('s'::[]))))))))) :: ((('U'::('n'::('i'::('c'::('o'::('d'::('e'::('W'::('a'::('r'::('n'::('i'::('n'::('g'::[])))))))))))))),
    ('b'::('u'::('i'::('l'::('t'::('i'::('n'::('s'::[]))))))))) :: ((('U'::('s'::('e'::('r'::('W'::('a'::('r'::('n'::('i'::('n'::('g'::[]))))))))))),
    ('b'::('u'::('i'::('l'::('t'::('i'::('n'::('s'::[]))))))))) :: ((('V'::('a'::('l'::('u'::('e'::('E'::('r'::('r'::('o'::('r'::[])))))))))),
    ('b'::('u'::('i'::('l'::('t'::('i'::('n'::('s'::[]))))))))) :: ((('W'::('a'::('r'::('n'::('i'::('n'::('g'::[]))))))),
    ('b'::('u'::('i'::('l'::('t'::('i'::('n'::('s'::[]))))))))) :: ((('Z'::('e'::('r'::('o'::('D'::('i'::('v'::('i'::('s'::('i'::('o'::('n'::('E'::('r'::('r'::('o'::('r'::[]))))))))))))))))),
    ('b'::('u'::('i'::('l'::('t'::('i'::('n'::('s'::[]))))))))) :: ((('_'::('_'::('b'::('u'::('i'::('l'::('d'::('_'::('c'::('l'::('a'::('s'::('s'::('_'::('_'::[]))))))))))))))),
    ('b'::('u'::('i'::('l'::('t'::('i'::('n'::('s'::[]))))))))) :: ((('_'::('_'::('d'::('e'::('b'::('u'::('g'::('_'::('_'::[]))))))))),
    ('-'::[])) :: ((('_'::('_'::('d'::('o'::('c'::('_'::('_'::[]))))))),
    ('-'::[])) :: ((('_'::('_'::('i'::('m'::('p'::('o'::('r'::('t'::('_'::('_'::[])))))))))),
    ('b'::('u'::('i'::('l'::('t'::('i'::('n'::('s'::[]))))))))) :: ((('_'::('_'::('l'::('o'::('a'::('d'::('e'::('r'::('_'::('_'::[])))))))))),
    ('_'::('f'::('r'::('o'::('z'::('e'::('n'::('_'::('i'::('m'::('p'::('o'::('r'::('t'::('l'::('i'::('b'::[])))))))))))))))))) :: ((('_'::('_'::('n'::('a'::('m'::('e'::('_'::('_'::[])))))))),
    ('-'::[])) :: ((('_'::('_'::('p'::('a'::('c'::('k'::('a'::('g'::('e'::('_'::('_'::[]))))))))))),
    ('-'::[])) :: ((('_'::('_'::('s'::('p'::('e'::('c'::('_'::('_'::[])))))))),
    ('_'::('f'::('r'::('o'::('z'::('e'::('n'::('_'::('i'::('m'::('p'::('o'::('r'::('t'::('l'::('i'::('b'::[])))))))))))))))))) :: ((('a'::('b'::('s'::[]))),
    ('b'::('u'::('i'::('l'::('t'::('i'::('n'::('s'::[]))))))))) :: ((('a'::('i'::('t'::('e'::('r'::[]))))),
    ('b'::('u'::('i'::('l'::('t'::('i'::('n'::('s'::[]))))))))) :: ((('a'::('l'::('l'::[]))),
    ('b'::('u'::('i'::('l'::('t'::('i'::('n'::('s'::[]))))))))) :: ((('a'::('n'::('e'::('x'::('t'::[]))))),
    ('b'::('u'::('i'::('l'::('t'::('i'::('n'::('s'::[]))))))))) :: ((('a'::('n'::('y'::[]))),
    ('b'::('u'::('i'::('l'::('t'::('i'::('n'::('s'::[]))))))))) :: ((('a'::('s'::('c'::('i'::('i'::[]))))),
    ('b'::('u'::('i'::('l'::('t'::('i'::('n'::('s'::[]))))))))) :: ((('b'::('i'::('n'::[]))),
    ('b'::('u'::('i'::('l'::('t'::('i'::('n'::('s'::[]))))))))) :: ((('b'::('o'::('o'::('l'::[])))),
    ('b'::('u'::('i'::('l'::('t'::('i'::('n'::('s'::[]))))))))) :: ((('b'::('r'::('e'::('a'::('k'::('p'::('o'::('i'::('n'::('t'::[])))))))))),
    ('b'::('u'::('i'::('l'::('t'::('i'::('n'::('s'::[]))))))))) :: ((('b'::('y'::('t'::('e'::('a'::('r'::('r'::('a'::('y'::[]))))))))),
    ('b'::('u'::('i'::('l'::('t'::('i'::('n'::('s'::[]))))))))) :: ((('b'::('y'::('t'::('e'::('s'::[]))))),
    ('b'::('u'::('i'::('l'::('t'::('i'::('n'::('s'::[]))))))))) :: ((('c'::('a'::('l'::('l'::('a'::('b'::('l'::('e'::[])))))))),
    ('b'::('u'::('i'::('l'::('t'::('i'::('n'::('s'::[]))))))))) :: ((('c'::('h'::('r'::[]))),
    ('b'::('u'::('i'::('l'::('t'::('i'::('n'::('s'::[]))))))))) :: ((('c'::('l'::('a'::('s'::('s'::('m'::('e'::('t'::('h'::('o'::('d'::[]))))))))))),
    ('b'::('u'::('i'::('l'::('t'::('i'::('n'::('s'::[]))))))))) :: ((('c'::('o'::('m'::('p'::('i'::('l'::('e'::[]))))))),
    ('b'::('u'::('i'::('l'::('t'::('i'::('n'::('s'::[]))))))))) :: ((('c'::('o'::('m'::('p'::('l'::('e'::('x'::[]))))))),
    ('b'::('u'::('i'::('l'::('t'::('i'::('n'::('s'::[]))))))))) :: ((('c'::('o'::('p'::('y'::('r'::('i'::('g'::('h'::('t'::[]))))))))),
    ('_'::('s'::('i'::('t'::('e'::('b'::('u'::('i'::('l'::('t'::('i'::('n'::('s'::[])))))))))))))) :: ((('c'::('r'::('e'::('d'::('i'::('t'::('s'::[]))))))),
    ('_'::('s'::('i'::('t'::('e'::('b'::('u'::('i'::('l'::('t'::('i'::('n'::('s'::[])))))))))))))) :: ((('d'::('e'::('l'::('a'::('t'::('t'::('r'::[]))))))),
    ('b'::('u'::('i'::('l'::('t'::('i'::('n'::('s'::[]))))))))) :: ((('d'::('i'::('c'::('t'::[])))),
    ('b'::('u'::('i'::('l'::('t'::('i'::('n'::('s'::[]))))))))) :: ((('d'::('i'::('r'::[]))),
    ('b'::('u'::('i'::('l'::('t'::('i'::('n'::('s'::[]))))))))) :: ((('d'::('i'::('v'::('m'::('o'::('d'::[])))))),
    ('b'::('u'::('i'::('l'::('t'::('i'::('n'::('s'::[]))))))))) :: ((('e'::('n'::('u'::('m'::('e'::('r'::('a'::('t'::('e'::[]))))))))),
    ('b'::('u'::('i'::('l'::('t'::('i'::('n'::('s'::[]))))))))) :: ((('e'::('v'::('a'::('l'::[])))),
    ('b'::('u'::('i'::('l'::('t'::('i'::('n'::('s'::[]))))))))) :: ((('e'::('x'::('e'::('c'::[])))),
    ('b'::('u'::('i'::('l'::('t'::('i'::('n'::('s'::[]))))))))) :: ((('e'::('x'::('i'::('t'::[])))),
    ('_'::('s'::('i'::('t'::('e'::('b'::('u'::('i'::('l'::('t'::('i'::('n'::('s'::[])))))))))))))) :: ((('f'::('i'::('l'::('t'::('e'::('r'::[])))))),
    ('b'::('u'::('i'::('l'::('t'::('i'::('n'::('s'::[]))))))))) :: ((('f'::('l'::('o'::('a'::('t'::[]))))),
    ('b'::('u'::('i'::('l'::('t'::('i'::('n'::('s'::[]))))))))) :: ((('f'::('o'::('r'::('m'::('a'::('t'::[])))))),
    ('b'::('u'::('i'::('l'::('t'::('i'::('n'::('s'::[]))))))))) :: ((('f'::('r'::('o'::('z'::('e'::('n'::('s'::('e'::('t'::[]))))))))),
    ('b'::('u'::('i'::('l'::('t'::('i'::('n'::('s'::[]))))))))) :: ((('g'::('e'::('t'::('a'::('t'::('t'::('r'::[]))))))),
    ('b'::('u'::('i'::('l'::('t'::('i'::('n'::('s'::[]))))))))) :: ((('g'::('l'::('o'::('b'::('a'::('l'::('s'::[]))))))),
    ('b'::('u'::('i'::('l'::('t'::('i'::('n'::('s'::[]))))))))) :: ((('h'::('a'::('s'::('a'::('t'::('t'::('r'::[]))))))),
    ('b'::('u'::('i'::('l'::('t'::('i'::('n'::('s'::[]))))))))) :: ((('h'::('a'::('s'::('h'::[])))),
    ('b'::('u'::('i'::('l'::('t'::('i'::('n'::('s'::[]))))))))) :: ((('h'::('e'::('l'::('p'::[])))),
    ('_'::('s'::('i'::('t'::('e'::('b'::('u'::('i'::('l'::('t'::('i'::('n'::('s'::[])))))))))))))) :: ((('h'::('e'::('x'::[]))),
    ('b'::('u'::('i'::('l'::('t'::('i'::('n'::('s'::[]))))))))) :: ((('i'::('d'::[])),
    ('b'::('u'::('i'::('l'::('t'::('i'::('n'::('s'::[]))))))))) :: ((('i'::('n'::('p'::('u'::('t'::[]))))),
    ('b'::('u'::('i'::('l'::('t'::('i'::('n'::('s'::[]))))))))) :: ((('i'::('n'::('t'::[]))),
    ('b'::('u'::('i'::('l'::('t'::('i'::('n'::('s'::[]))))))))) :: ((('i'::('s'::('i'::('n'::('s'::('t'::('a'::('n'::('c'::('e'::[])))))))))),
    ('b'::('u'::('i'::('l'::('t'::('i'::('n'::('s'::[]))))))))) :: ((('i'::('s'::('s'::('u'::('b'::('c'::('l'::('a'::('s'::('s'::[])))))))))),
    ('b'::('u'::('i'::('l'::('t'::('i'::('n'::('s'::[]))))))))) :: ((('i'::('t'::('e'::('r'::[])))),
    ('b'::('u'::('i'::('l'::('t'::('i'::('n'::('s'::[]))))))))) :: ((('l'::('e'::('n'::[]))),
    ('b'::('u'::('i'::('l'::('t'::('i'::('n'::('s'::[]))))))))) :: ((('l'::('i'::('c'::('e'::('n'::('s'::('e'::[]))))))),
    ('_'::('s'::('i'::('t'::('e'::('b'::('u'::('i'::('l'::('t'::('i'::('n'::('s'::[])))))))))))))) :: ((('l'::('i'::('s'::('t'::[])))),
    ('b'::('u'::('i'::('l'::('t'::('i'::('n'::('s'::[]))))))))) :: ((('l'::('o'::('c'::('a'::('l'::('s'::[])))))),
    ('b'::('u'::('i'::('l'::('t'::('i'::('n'::('s'::[]))))))))) :: ((('m'::('a'::('p'::[]))),
    ('b'::('u'::('i'::('l'::('t'::('i'::('n'::('s'::[]))))))))) :: ((('m'::('a'::('x'::[]))),
    ('b'::('u'::('i'::('l'::('t'::('i'::('n'::('s'::[]))))))))) :: ((('m'::('e'::('m'::('o'::('r'::('y'::('v'::('i'::('e'::('w'::[])))))))))),
    ('b'::('u'::('i'::('l'::('t'::('i'::('n'::('s'::[]))))))))) :: ((('m'::('i'::('n'::[]))),
    ('b'::('u'::('i'::('l'::('t'::('i'::('n'::('s'::[]))))))))) :: ((('n'::('e'::('x'::('t'::[])))),
    ('b'::('u'::('i'::('l'::('t'::('i'::('n'::('s'::[]))))))))) :: ((('o'::('b'::('j'::('e'::('c'::('t'::[])))))),
    ('b'::('u'::('i'::('l'::('t'::('i'::('n'::('s'::[]))))))))) :: ((('o'::('c'::('t'::[]))),
    ('b'::('u'::('i'::('l'::('t'::('i'::('n'::('s'::[]))))))))) :: ((('o'::('p'::('e'::('n'::[])))),
    ('_'::('i'::('o'::[])))) :: ((('o'::('r'::('d'::[]))),
    ('b'::('u'::('i'::('l'::('t'::('i'::('n'::('s'::[]))))))))) :: ((('p'::('o'::('w'::[]))),
    ('b'::('u'::('i'::('l'::('t'::('i'::('n'::('s'::[]))))))))) :: ((('p'::('r'::('i'::('n'::('t'::[]))))),
    ('b'::('u'::('i'::('l'::('t'::('i'::('n'::('s'::[]))))))))) :: ((('p'::('r'::('o'::('p'::('e'::('r'::('t'::('y'::[])))))))),
    ('b'::('u'::('i'::('l'::('t'::('i'::('n'::('s'::[]))))))))) :: ((('q'::('u'::('i'::('t'::[])))),
    ('_'::('s'::('i'::('t'::('e'::('b'::('u'::('i'::('l'::('t'::('i'::('n'::('s'::[])))))))))))))) :: ((('r'::('a'::('n'::('g'::('e'::[]))))),
    ('b'::('u'::('i'::('l'::('t'::('i'::('n'::('s'::[]))))))))) :: ((('r'::('e'::('p'::('r'::[])))),
    ('b'::('u'::('i'::('l'::('t'::('i'::('n'::('s'::[]))))))))) :: ((('r'::('e'::('v'::('e'::('r'::('s'::('e'::('d'::[])))))))),
    ('b'::('u'::('i'::('l'::('t'::('i'::('n'::('s'::[]))))))))) :: ((('r'::('o'::('u'::('n'::('d'::[]))))),
    ('b'::('u'::('i'::('l'::('t'::('i'::('n'::('s'::[]))))))))) :: ((('s'::('e'::('t'::[]))),
    ('b'::('u'::('i'::('l'::('t'::('i'::('n'::('s'::[]))))))))) :: ((('s'::('e'::('t'::('a'::('t'::('t'::('r'::[]))))))),
    ('b'::('u'::('i'::('l'::('t'::('i'::('n'::('s'::[]))))))))) :: ((('s'::('l'::('i'::('c'::('e'::[]))))),
    ('b'::('u'::('i'::('l'::('t'::('i'::('n'::('s'::[]))))))))) :: ((('s'::('o'::('r'::('t'::('e'::('d'::[])))))),
    ('b'::('u'::('i'::('l'::('t'::('i'::('n'::('s'::[]))))))))) :: ((('s'::('t'::('a'::('t'::('i'::('c'::('m'::('e'::('t'::('h'::('o'::('d'::[])))))))))))),
    ('b'::('u'::('i'::('l'::('t'::('i'::('n'::('s'::[]))))))))) :: ((('s'::('t'::('r'::[]))),
    ('b'::('u'::('i'::('l'::('t'::('i'::('n'::('s'::[]))))))))) :: ((('s'::('u'::('m'::[]))),
    ('b'::('u'::('i'::('l'::('t'::('i'::('n'::('s'::[]))))))))) :: ((('s'::('u'::('p'::('e'::('r'::[]))))),
    ('b'::('u'::('i'::('l'::('t'::('i'::('n'::('s'::[]))))))))) :: ((('t'::('u'::('p'::('l'::('e'::[]))))),
    ('b'::('u'::('i'::('l'::('t'::('i'::('n'::('s'::[]))))))))) :: ((('t'::('y'::('p'::('e'::[])))),
    ('b'::('u'::('i'::('l'::('t'::('i'::('n'::('s'::[]))))))))) :: ((('v'::('a'::('r'::('s'::[])))),
    ('b'::('u'::('i'::('l'::('t'::('i'::('n'::('s'::[]))))))))) :: ((('z'::('i'::('p'::[]))),
    ('b'::('u'::('i'::('l'::('t'::('i'::('n'::('s'::[]))))))))) :: []))))))))))))))))))))))))))))))))))))))))))))))))))))))))))))))))))))))))))))))))))))))))))))))))))))))))))))))))))))))))))))))))))))))))))))))))))))))))))))

(** val documented : char list list **)

let documented =
  ('s'::('i'::('n'::[]))) :: (('c'::('o'::('s'::[]))) :: (('t'::('a'::('n'::[]))) :: (('a'::('c'::('o'::('s'::[])))) :: (('a'::('s'::('i'::('n'::[])))) :: (('a'::('t'::('a'::('n'::[])))) :: (('a'::('t'::('a'::('n'::('2'::[]))))) :: (('s'::('i'::('n'::('h'::[])))) :: (('c'::('o'::('s'::('h'::[])))) :: (('t'::('a'::('n'::('h'::[])))) :: (('a'::('s'::('i'::('n'::('h'::[]))))) :: (('a'::('c'::('o'::('s'::('h'::[]))))) :: (('a'::('t'::('a'::('n'::('h'::[]))))) :: (('e'::('x'::('p'::[]))) :: (('l'::('d'::('e'::('x'::('p'::[]))))) :: (('l'::('o'::('g'::[]))) :: (('l'::('n'::[])) :: (('l'::('o'::('g'::('1'::('0'::[]))))) :: (('e'::('x'::('p'::('2'::[])))) :: (('e'::('x'::('p'::('m'::('1'::[]))))) :: (('i'::('l'::('o'::('g'::('b'::[]))))) :: (('l'::('o'::('g'::('1'::('p'::[]))))) :: (('l'::('o'::('g'::('2'::[])))) :: (('s'::('c'::('a'::('l'::('b'::('n'::[])))))) :: (('s'::('c'::('a'::('l'::('b'::('l'::('n'::[]))))))) :: (('p'::('o'::('w'::[]))) :: (('s'::('q'::('r'::('t'::[])))) :: (('c'::('b'::('r'::('t'::[])))) :: (('h'::('y'::('p'::('o'::('t'::[]))))) :: (('e'::('r'::('f'::[]))) :: (('e'::('r'::('f'::('c'::[])))) :: (('t'::('g'::('a'::('m'::('m'::('a'::[])))))) :: (('l'::('g'::('a'::('m'::('m'::('a'::[])))))) :: (('c'::('e'::('i'::('l'::[])))) :: (('f'::('l'::('o'::('o'::('r'::[]))))) :: (('f'::('m'::('o'::('d'::[])))) :: (('t'::('r'::('u'::('n'::('c'::[]))))) :: (('r'::('o'::('u'::('n'::('d'::[]))))) :: (('r'::('i'::('n'::('t'::[])))) :: (('n'::('e'::('a'::('r'::('b'::('y'::('i'::('n'::('t'::[]))))))))) :: (('r'::('e'::('m'::('a'::('i'::('n'::('d'::('e'::('r'::[]))))))))) :: (('r'::('e'::('m'::('q'::('u'::('o'::[])))))) :: (('c'::('o'::('p'::('y'::('s'::('i'::('g'::('n'::[])))))))) :: (('n'::('a'::('n'::[]))) :: (('n'::('e'::('x'::('t'::('a'::('f'::('t'::('e'::('r'::[]))))))))) :: (('n'::('e'::('x'::('t'::('t'::('o'::('w'::('a'::('r'::('d'::[])))))))))) :: (('f'::('d'::('i'::('m'::[])))) :: (('f'::('m'::('a'::('x'::[])))) :: (('f'::('m'::('i'::('n'::[])))) :: (('f'::('a'::('b'::('s'::[])))) :: (('a'::('b'::('s'::[]))) :: (('f'::('m'::('a'::[]))) :: [])))))))))))))))))))))))))))))))))))))))))))))))))))

(** val math_env : menv **)

let math_env =
  { e_rows = math_rows; e_module = module_names; e_builtins = builtin_names }

type literal =
| LInt of z
| LFloat of bool * n * z
| LBool of bool
| LStr of char list

(** val code : char -> nat **)

let code =
  nat_of_ascii

(** val is_octal : char -> bool **)

let is_octal c =
  (&&)
    (Nat.leb (S (S (S (S (S (S (S (S (S (S (S (S (S (S (S (S (S (S (S (S (S
      (S (S (S (S (S (S (S (S (S (S (S (S (S (S (S (S (S (S (S (S (S (S (S (S
      (S (S (S O)))))))))))))))))))))))))))))))))))))))))))))))) (code c))
    (Nat.leb (code c) (S (S (S (S (S (S (S (S (S (S (S (S (S (S (S (S (S (S
      (S (S (S (S (S (S (S (S (S (S (S (S (S (S (S (S (S (S (S (S (S (S (S (S
      (S (S (S (S (S (S (S (S (S (S (S (S (S
      O))))))))))))))))))))))))))))))))))))))))))))))))))))))))

(** val is_hex : char -> bool **)

let is_hex c =
  (||)
    ((||) (is_digit c)
      ((&&)
        (Nat.leb (S (S (S (S (S (S (S (S (S (S (S (S (S (S (S (S (S (S (S (S
          (S (S (S (S (S (S (S (S (S (S (S (S (S (S (S (S (S (S (S (S (S (S
          (S (S (S (S (S (S (S (S (S (S (S (S (S (S (S (S (S (S (S (S (S (S
          (S
          O)))))))))))))))))))))))))))))))))))))))))))))))))))))))))))))))))
          (code c))
        (Nat.leb (code c) (S (S (S (S (S (S (S (S (S (S (S (S (S (S (S (S (S
          (S (S (S (S (S (S (S (S (S (S (S (S (S (S (S (S (S (S (S (S (S (S
          (S (S (S (S (S (S (S (S (S (S (S (S (S (S (S (S (S (S (S (S (S (S
          (S (S (S (S (S (S (S (S (S
          O)))))))))))))))))))))))))))))))))))))))))))))))))))))))))))))))))))))))))
    ((&&)
      (Nat.leb (S (S (S (S (S (S (S (S (S (S (S (S (S (S (S (S (S (S (S (S (S
        (S (S (S (S (S (S (S (S (S (S (S (S (S (S (S (S (S (S (S (S (S (S (S
        (S (S (S (S (S (S (S (S (S (S (S (S (S (S (S (S (S (S (S (S (S (S (S
        (S (S (S (S (S (S (S (S (S (S (S (S (S (S (S (S (S (S (S (S (S (S (S
        (S (S (S (S (S (S (S
        O)))))))))))))))))))))))))))))))))))))))))))))))))))))))))))))))))))))))))))))))))))))))))))))))))
        (code c))
      (Nat.leb (code c) (S (S (S (S (S (S (S (S (S (S (S (S (S (S (S (S (S (S
        (S (S (S (S (S (S (S (S (S (S (S (S (S (S (S (S (S (S (S (S (S (S (S
        (S (S (S (S (S (S (S (S (S (S (S (S (S (S (S (S (S (S (S (S (S (S (S
        (S (S (S (S (S (S (S (S (S (S (S (S (S (S (S (S (S (S (S (S (S (S (S
        (S (S (S (S (S (S (S (S (S (S (S (S (S (S (S
        O))))))))))))))))))))))))))))))))))))))))))))))))))))))))))))))))))))))))))))))))))))))))))))))))))))))))

(** val hex_val : char -> n **)

let hex_val c =
  if is_digit c
  then N.of_nat
         (sub (code c) (S (S (S (S (S (S (S (S (S (S (S (S (S (S (S (S (S (S
           (S (S (S (S (S (S (S (S (S (S (S (S (S (S (S (S (S (S (S (S (S (S
           (S (S (S (S (S (S (S (S
           O)))))))))))))))))))))))))))))))))))))))))))))))))
  else if Nat.leb (S (S (S (S (S (S (S (S (S (S (S (S (S (S (S (S (S (S (S (S
            (S (S (S (S (S (S (S (S (S (S (S (S (S (S (S (S (S (S (S (S (S (S
            (S (S (S (S (S (S (S (S (S (S (S (S (S (S (S (S (S (S (S (S (S (S
            (S (S (S (S (S (S (S (S (S (S (S (S (S (S (S (S (S (S (S (S (S (S
            (S (S (S (S (S (S (S (S (S (S (S
            O)))))))))))))))))))))))))))))))))))))))))))))))))))))))))))))))))))))))))))))))))))))))))))))))))
            (code c)
       then N.of_nat
              (sub (code c) (S (S (S (S (S (S (S (S (S (S (S (S (S (S (S (S
                (S (S (S (S (S (S (S (S (S (S (S (S (S (S (S (S (S (S (S (S
                (S (S (S (S (S (S (S (S (S (S (S (S (S (S (S (S (S (S (S (S
                (S (S (S (S (S (S (S (S (S (S (S (S (S (S (S (S (S (S (S (S
                (S (S (S (S (S (S (S (S (S (S (S
                O))))))))))))))))))))))))))))))))))))))))))))))))))))))))))))))))))))))))))))))))))))))))
       else N.of_nat
              (sub (code c) (S (S (S (S (S (S (S (S (S (S (S (S (S (S (S (S
                (S (S (S (S (S (S (S (S (S (S (S (S (S (S (S (S (S (S (S (S
                (S (S (S (S (S (S (S (S (S (S (S (S (S (S (S (S (S (S (S
                O))))))))))))))))))))))))))))))))))))))))))))))))))))))))

(** val is_alpha_ : char -> bool **)

let is_alpha_ c =
  (||)
    ((||)
      ((&&)
        (Nat.leb (S (S (S (S (S (S (S (S (S (S (S (S (S (S (S (S (S (S (S (S
          (S (S (S (S (S (S (S (S (S (S (S (S (S (S (S (S (S (S (S (S (S (S
          (S (S (S (S (S (S (S (S (S (S (S (S (S (S (S (S (S (S (S (S (S (S
          (S
          O)))))))))))))))))))))))))))))))))))))))))))))))))))))))))))))))))
          (code c))
        (Nat.leb (code c) (S (S (S (S (S (S (S (S (S (S (S (S (S (S (S (S (S
          (S (S (S (S (S (S (S (S (S (S (S (S (S (S (S (S (S (S (S (S (S (S
          (S (S (S (S (S (S (S (S (S (S (S (S (S (S (S (S (S (S (S (S (S (S
          (S (S (S (S (S (S (S (S (S (S (S (S (S (S (S (S (S (S (S (S (S (S
          (S (S (S (S (S (S (S
          O))))))))))))))))))))))))))))))))))))))))))))))))))))))))))))))))))))))))))))))))))))))))))))
      ((&&)
        (Nat.leb (S (S (S (S (S (S (S (S (S (S (S (S (S (S (S (S (S (S (S (S
          (S (S (S (S (S (S (S (S (S (S (S (S (S (S (S (S (S (S (S (S (S (S
          (S (S (S (S (S (S (S (S (S (S (S (S (S (S (S (S (S (S (S (S (S (S
          (S (S (S (S (S (S (S (S (S (S (S (S (S (S (S (S (S (S (S (S (S (S
          (S (S (S (S (S (S (S (S (S (S (S
          O)))))))))))))))))))))))))))))))))))))))))))))))))))))))))))))))))))))))))))))))))))))))))))))))))
          (code c))
        (Nat.leb (code c) (S (S (S (S (S (S (S (S (S (S (S (S (S (S (S (S (S
          (S (S (S (S (S (S (S (S (S (S (S (S (S (S (S (S (S (S (S (S (S (S
          (S (S (S (S (S (S (S (S (S (S (S (S (S (S (S (S (S (S (S (S (S (S
          (S (S (S (S (S (S (S (S (S (S (S (S (S (S (S (S (S (S (S (S (S (S
          (S (S (S (S (S (S (S (S (S (S (S (S (S (S (S (S (S (S (S (S (S (S
          (S (S (S (S (S (S (S (S (S (S (S (S (S (S (S (S (S
          O)))))))))))))))))))))))))))))))))))))))))))))))))))))))))))))))))))))))))))))))))))))))))))))))))))))))))))))))))))))))))))))
    (Nat.eqb (code c) (S (S (S (S (S (S (S (S (S (S (S (S (S (S (S (S (S (S
      (S (S (S (S (S (S (S (S (S (S (S (S (S (S (S (S (S (S (S (S (S (S (S (S
      (S (S (S (S (S (S (S (S (S (S (S (S (S (S (S (S (S (S (S (S (S (S (S (S
      (S (S (S (S (S (S (S (S (S (S (S (S (S (S (S (S (S (S (S (S (S (S (S (S
      (S (S (S (S (S
      O))))))))))))))))))))))))))))))))))))))))))))))))))))))))))))))))))))))))))))))))))))))))))))))))

(** val is_idchar : char -> bool **)

let is_idchar c =
  (||) (is_alpha_ c) (is_digit c)

(** val is_schar : char -> bool **)

let is_schar c =
  let n0 = code c in
  if (||)
       (Nat.eqb n0 (S (S (S (S (S (S (S (S (S (S (S (S (S (S (S (S (S (S (S
         (S (S (S (S (S (S (S (S (S (S (S (S (S (S (S
         O)))))))))))))))))))))))))))))))))))
       (Nat.eqb n0 (S (S (S (S (S (S (S (S (S (S (S (S (S (S (S (S (S (S (S
         (S (S (S (S (S (S (S (S (S (S (S (S (S (S (S (S (S (S (S (S (S (S (S
         (S (S (S (S (S (S (S (S (S (S (S (S (S (S (S (S (S (S (S (S (S (S (S
         (S (S (S (S (S (S (S (S (S (S (S (S (S (S (S (S (S (S (S (S (S (S (S
         (S (S (S (S
         O)))))))))))))))))))))))))))))))))))))))))))))))))))))))))))))))))))))))))))))))))))))))))))))
  then false
  else if Nat.ltb n0 (S (S (S (S (S (S (S (S (S (S (S (S (S (S (S (S (S (S (S
            (S (S (S (S (S (S (S (S (S (S (S (S (S
            O))))))))))))))))))))))))))))))))
       then (||)
              ((||) (Nat.eqb n0 (S (S (S (S (S (S (S (S (S O))))))))))
                (Nat.eqb n0 (S (S (S (S (S (S (S (S (S (S (S O)))))))))))))
              (Nat.eqb n0 (S (S (S (S (S (S (S (S (S (S (S (S O)))))))))))))
       else negb
              (Nat.eqb n0 (S (S (S (S (S (S (S (S (S (S (S (S (S (S (S (S (S
                (S (S (S (S (S (S (S (S (S (S (S (S (S (S (S (S (S (S (S (S
                (S (S (S (S (S (S (S (S (S (S (S (S (S (S (S (S (S (S (S (S
                (S (S (S (S (S (S (S (S (S (S (S (S (S (S (S (S (S (S (S (S
                (S (S (S (S (S (S (S (S (S (S (S (S (S (S (S (S (S (S (S (S
                (S (S (S (S (S (S (S (S (S (S (S (S (S (S (S (S (S (S (S (S
                (S (S (S (S (S (S (S (S (S (S
                O))))))))))))))))))))))))))))))))))))))))))))))))))))))))))))))))))))))))))))))))))))))))))))))))))))))))))))))))))))))))))))))))

(** val simple_escape : char -> char option **)

let simple_escape c =
  (* If this appears, you're using Ascii internals. Please don't *)
 (fun f c ->
  let n = Char.code c in
  let h i = (n land (1 lsl i)) <> 0 in
  f (h 0) (h 1) (h 2) (h 3) (h 4) (h 5) (h 6) (h 7))
    (fun b b0 b1 b2 b3 b4 b5 b6 ->
    if b
    then if b0
         then if b1
              then if b2
                   then if b3
                        then if b4
                             then if b5
                                  then None
                                  else if b6 then None else Some '?'
                             else None
                        else None
                   else if b3
                        then None
                        else if b4
                             then if b5
                                  then None
                                  else if b6 then None else Some '\''
                             else None
              else None
         else if b1
              then None
              else if b2
                   then None
                   else if b3
                        then None
                        else if b4
                             then if b5
                                  then if b6
                                       then None
                                       else Some
                                              (ascii_of_nat (S (S (S (S (S (S
                                                (S O))))))))
                                  else None
                             else None
    else if b0
         then if b1
              then if b2
                   then if b3
                        then None
                        else if b4
                             then if b5
                                  then if b6
                                       then None
                                       else Some
                                              (ascii_of_nat (S (S (S (S (S (S
                                                (S (S (S (S O)))))))))))
                                  else None
                             else None
                   else if b3
                        then if b4
                             then if b5
                                  then if b6
                                       then None
                                       else Some
                                              (ascii_of_nat (S (S (S (S (S (S
                                                (S (S (S (S (S O))))))))))))
                                  else None
                             else None
                        else if b4
                             then if b5
                                  then if b6
                                       then None
                                       else Some
                                              (ascii_of_nat (S (S (S (S (S (S
                                                (S (S (S (S (S (S
                                                O)))))))))))))
                                  else None
                             else None
              else if b2
                   then None
                   else if b3
                        then if b4
                             then if b5
                                  then if b6
                                       then None
                                       else Some
                                              (ascii_of_nat (S (S (S (S (S (S
                                                (S (S (S (S (S (S (S
                                                O))))))))))))))
                                  else None
                             else None
                        else if b4
                             then if b5
                                  then if b6
                                       then None
                                       else Some
                                              (ascii_of_nat (S (S (S (S (S (S
                                                (S (S O)))))))))
                                  else if b6 then None else Some '"'
                             else None
         else if b1
              then if b2
                   then if b3
                        then if b4
                             then None
                             else if b5
                                  then if b6 then None else Some '\\'
                                  else None
                        else None
                   else if b3
                        then if b4
                             then if b5
                                  then if b6
                                       then None
                                       else Some
                                              (ascii_of_nat (S (S (S (S (S (S
                                                (S (S (S O))))))))))
                                  else None
                             else None
                        else None
              else None)
    c

(** val byte_of_N : n -> char option **)

let byte_of_N v =
  if N.ltb v (Npos (XO (XO (XO (XO (XO (XO (XO (XO XH)))))))))
  then Some (ascii_of_N v)
  else None

type sstate =
| SNorm
| SEsc
| SOct of nat * n
| SHex of bool * n

(** val cons_res :
    char option -> (char list * char list) option -> (char list * char list)
    option **)

let cons_res b r =
  match b with
  | Some b' ->
    (match r with
     | Some p -> let (v, rest) = p in Some ((b'::v), rest)
     | None -> None)
  | None -> None

(** val lex_sbody : sstate -> char list -> (char list * char list) option **)

let rec lex_sbody st = function
| [] -> None
| c::r ->
  let norm = fun pending ->
    let here =
      if Nat.eqb (code c) (S (S (S (S (S (S (S (S (S (S (S (S (S (S (S (S (S
           (S (S (S (S (S (S (S (S (S (S (S (S (S (S (S (S (S
           O))))))))))))))))))))))))))))))))))
      then Some ([], r)
      else if Nat.eqb (code c) (S (S (S (S (S (S (S (S (S (S (S (S (S (S (S
                (S (S (S (S (S (S (S (S (S (S (S (S (S (S (S (S (S (S (S (S
                (S (S (S (S (S (S (S (S (S (S (S (S (S (S (S (S (S (S (S (S
                (S (S (S (S (S (S (S (S (S (S (S (S (S (S (S (S (S (S (S (S
                (S (S (S (S (S (S (S (S (S (S (S (S (S (S (S (S (S
                O))))))))))))))))))))))))))))))))))))))))))))))))))))))))))))))))))))))))))))))))))))))))))))
           then lex_sbody SEsc r
           else if is_schar c
                then cons_res (Some c) (lex_sbody SNorm r)
                else None
    in
    (match pending with
     | Some b -> cons_res b here
     | None -> here)
  in
  (match st with
   | SNorm -> norm None
   | SEsc ->
     (match simple_escape c with
      | Some b -> cons_res (Some b) (lex_sbody SNorm r)
      | None ->
        if is_octal c
        then lex_sbody (SOct ((S O),
               (N.of_nat
                 (sub (code c) (S (S (S (S (S (S (S (S (S (S (S (S (S (S (S
                   (S (S (S (S (S (S (S (S (S (S (S (S (S (S (S (S (S (S (S
                   (S (S (S (S (S (S (S (S (S (S (S (S (S (S
                   O)))))))))))))))))))))))))))))))))))))))))))))))))))) r
        else if Nat.eqb (code c) (S (S (S (S (S (S (S (S (S (S (S (S (S (S (S
                  (S (S (S (S (S (S (S (S (S (S (S (S (S (S (S (S (S (S (S (S
                  (S (S (S (S (S (S (S (S (S (S (S (S (S (S (S (S (S (S (S (S
                  (S (S (S (S (S (S (S (S (S (S (S (S (S (S (S (S (S (S (S (S
                  (S (S (S (S (S (S (S (S (S (S (S (S (S (S (S (S (S (S (S (S
                  (S (S (S (S (S (S (S (S (S (S (S (S (S (S (S (S (S (S (S (S
                  (S (S (S (S (S
                  O))))))))))))))))))))))))))))))))))))))))))))))))))))))))))))))))))))))))))))))))))))))))))))))))))))))))))))))))))))))))
             then lex_sbody (SHex (false, N0)) r
             else None)
   | SOct (k, v) ->
     if is_octal c
     then let v' =
            N.add (N.mul v (Npos (XO (XO (XO XH)))))
              (N.of_nat
                (sub (code c) (S (S (S (S (S (S (S (S (S (S (S (S (S (S (S (S
                  (S (S (S (S (S (S (S (S (S (S (S (S (S (S (S (S (S (S (S (S
                  (S (S (S (S (S (S (S (S (S (S (S (S
                  O))))))))))))))))))))))))))))))))))))))))))))))))))
          in
          (match k with
           | O -> cons_res (byte_of_N v') (lex_sbody SNorm r)
           | S n0 ->
             (match n0 with
              | O -> lex_sbody (SOct ((S (S O)), v')) r
              | S _ -> cons_res (byte_of_N v') (lex_sbody SNorm r)))
     else norm (Some (byte_of_N v))
   | SHex (started, v) ->
     if is_hex c
     then lex_sbody (SHex (true,
            (N.add (N.mul v (Npos (XO (XO (XO (XO XH)))))) (hex_val c)))) r
     else if started then norm (Some (byte_of_N v)) else None)

(** val all_digits : char list -> bool **)

let rec all_digits = function
| [] -> true
| c::r -> (&&) (is_digit c) (all_digits r)

(** val nonempty : char list -> bool **)

let nonempty = function
| [] -> false
| _::_ -> true

(** val digits1 : char list -> bool **)

let digits1 s =
  (&&) (nonempty s) (all_digits s)

(** val break_at :
    (char -> bool) -> char list -> char list * (char * char list) option **)

let rec break_at p = function
| [] -> ([], None)
| c::r ->
  if p c
  then ([], (Some (c, r)))
  else let (a, b) = break_at p r in ((c::a), b)

(** val is_dot : char -> bool **)

let is_dot c =
  Nat.eqb (code c) (S (S (S (S (S (S (S (S (S (S (S (S (S (S (S (S (S (S (S
    (S (S (S (S (S (S (S (S (S (S (S (S (S (S (S (S (S (S (S (S (S (S (S (S
    (S (S (S O))))))))))))))))))))))))))))))))))))))))))))))

(** val is_e : char -> bool **)

let is_e c =
  (||)
    (Nat.eqb (code c) (S (S (S (S (S (S (S (S (S (S (S (S (S (S (S (S (S (S
      (S (S (S (S (S (S (S (S (S (S (S (S (S (S (S (S (S (S (S (S (S (S (S (S
      (S (S (S (S (S (S (S (S (S (S (S (S (S (S (S (S (S (S (S (S (S (S (S (S
      (S (S (S (S (S (S (S (S (S (S (S (S (S (S (S (S (S (S (S (S (S (S (S (S
      (S (S (S (S (S (S (S (S (S (S (S
      O))))))))))))))))))))))))))))))))))))))))))))))))))))))))))))))))))))))))))))))))))))))))))))))))))))))
    (Nat.eqb (code c) (S (S (S (S (S (S (S (S (S (S (S (S (S (S (S (S (S (S
      (S (S (S (S (S (S (S (S (S (S (S (S (S (S (S (S (S (S (S (S (S (S (S (S
      (S (S (S (S (S (S (S (S (S (S (S (S (S (S (S (S (S (S (S (S (S (S (S (S
      (S (S (S
      O))))))))))))))))))))))))))))))))))))))))))))))))))))))))))))))))))))))

(** val is_plus : char -> bool **)

let is_plus c =
  Nat.eqb (code c) (S (S (S (S (S (S (S (S (S (S (S (S (S (S (S (S (S (S (S
    (S (S (S (S (S (S (S (S (S (S (S (S (S (S (S (S (S (S (S (S (S (S (S (S
    O)))))))))))))))))))))))))))))))))))))))))))

(** val is_minus : char -> bool **)

let is_minus c =
  Nat.eqb (code c) (S (S (S (S (S (S (S (S (S (S (S (S (S (S (S (S (S (S (S
    (S (S (S (S (S (S (S (S (S (S (S (S (S (S (S (S (S (S (S (S (S (S (S (S
    (S (S O)))))))))))))))))))))))))))))))))))))))))))))

(** val exp_value : char list -> z option **)

let exp_value s = match s with
| [] -> None
| c::r ->
  if is_plus c
  then if digits1 r then option_map Z.of_N (parse_N r) else None
  else if is_minus c
       then if digits1 r
            then option_map (fun n0 -> Z.opp (Z.of_N n0)) (parse_N r)
            else None
       else if digits1 s then option_map Z.of_N (parse_N s) else None

(** val signif_value : char list -> bool -> (n * z) option **)

let signif_value s has_exp =
  let (ip, o) = break_at is_dot s in
  (match o with
   | Some p ->
     let (_, fp) = p in
     if (&&) ((&&) (all_digits ip) (all_digits fp))
          ((||) (nonempty ip) (nonempty fp))
     then (match parse_N_acc (append ip fp) N0 with
           | Some m -> Some (m, (Z.opp (Z.of_nat (length0 fp))))
           | None -> None)
     else None
   | None ->
     if (&&) ((&&) has_exp (nonempty ip)) (all_digits ip)
     then option_map (fun m -> (m, Z0)) (parse_N ip)
     else None)

(** val float_value : char list -> (n * z) option **)

let float_value tok =
  let (sg, o) = break_at is_e tok in
  (match o with
   | Some p ->
     let (_, ex) = p in
     (match signif_value sg true with
      | Some p0 ->
        let (m, e1) = p0 in
        (match exp_value ex with
         | Some e2 -> Some (m, (Z.add e1 e2))
         | None -> None)
      | None -> None)
   | None -> signif_value sg false)

(** val cpp_float_lit : char list -> bool **)

let cpp_float_lit tok =
  match float_value tok with
  | Some _ -> true
  | None -> false

(** val max_int64 : n **)

let max_int64 =
  Npos (XI (XI (XI (XI (XI (XI (XI (XI (XI (XI (XI (XI (XI (XI (XI (XI (XI
    (XI (XI (XI (XI (XI (XI (XI (XI (XI (XI (XI (XI (XI (XI (XI (XI (XI (XI
    (XI (XI (XI (XI (XI (XI (XI (XI (XI (XI (XI (XI (XI (XI (XI (XI (XI (XI
    (XI (XI (XI (XI (XI (XI (XI (XI (XI
    XH))))))))))))))))))))))))))))))))))))))))))))))))))))))))))))))

(** val leading_zero : char list -> bool **)

let leading_zero = function
| [] -> false
| c::s ->
  (match s with
   | [] -> false
   | _::_ ->
     Nat.eqb (code c) (S (S (S (S (S (S (S (S (S (S (S (S (S (S (S (S (S (S
       (S (S (S (S (S (S (S (S (S (S (S (S (S (S (S (S (S (S (S (S (S (S (S
       (S (S (S (S (S (S (S O)))))))))))))))))))))))))))))))))))))))))))))))))

(** val int_value : char list -> n option **)

let int_value tok =
  if leading_zero tok
  then None
  else if digits1 tok
       then (match parse_N tok with
             | Some n0 -> if N.leb n0 max_int64 then Some n0 else None
             | None -> None)
       else None

(** val is_expch : char -> bool **)

let is_expch c =
  (||)
    ((||) (is_e c)
      (Nat.eqb (code c) (S (S (S (S (S (S (S (S (S (S (S (S (S (S (S (S (S (S
        (S (S (S (S (S (S (S (S (S (S (S (S (S (S (S (S (S (S (S (S (S (S (S
        (S (S (S (S (S (S (S (S (S (S (S (S (S (S (S (S (S (S (S (S (S (S (S
        (S (S (S (S (S (S (S (S (S (S (S (S (S (S (S (S (S (S (S (S (S (S (S
        (S (S (S (S (S (S (S (S (S (S (S (S (S (S (S (S (S (S (S (S (S (S (S
        (S (S
        O))))))))))))))))))))))))))))))))))))))))))))))))))))))))))))))))))))))))))))))))))))))))))))))))))))))))))))))))))
    (Nat.eqb (code c) (S (S (S (S (S (S (S (S (S (S (S (S (S (S (S (S (S (S
      (S (S (S (S (S (S (S (S (S (S (S (S (S (S (S (S (S (S (S (S (S (S (S (S
      (S (S (S (S (S (S (S (S (S (S (S (S (S (S (S (S (S (S (S (S (S (S (S (S
      (S (S (S (S (S (S (S (S (S (S (S (S (S (S
      O)))))))))))))))))))))))))))))))))))))))))))))))))))))))))))))))))))))))))))))))))

(** val ppnum : bool -> char list -> char list * char list **)

let rec ppnum prev_e s = match s with
| [] -> ([], [])
| c::r ->
  if (||) ((||) (is_idchar c) (is_dot c))
       ((&&) prev_e ((||) (is_plus c) (is_minus c)))
  then let (a, b) = ppnum (is_expch c) r in ((c::a), b)
  else ([], s)

(** val ident : char list -> char list * char list **)

let rec ident s = match s with
| [] -> ([], [])
| c::r -> if is_idchar c then let (a, b) = ident r in ((c::a), b) else ([], s)

(** val number_value : bool -> char list -> literal option **)

let number_value neg tok =
  match int_value tok with
  | Some n0 -> Some (LInt (if neg then Z.opp (Z.of_N n0) else Z.of_N n0))
  | None ->
    (match float_value tok with
     | Some p -> let (m, e) = p in Some (LFloat (neg, m, e))
     | None -> None)

(** val starts_number : char list -> bool **)

let starts_number = function
| [] -> false
| c::r ->
  (||) (is_digit c)
    ((&&) (is_dot c) (match r with
                      | [] -> false
                      | d::_ -> is_digit d))

(** val lex_prefix : char list -> (literal * char list) option **)

let lex_prefix s = match s with
| [] -> None
| c::r ->
  if Nat.eqb (code c) (S (S (S (S (S (S (S (S (S (S (S (S (S (S (S (S (S (S
       (S (S (S (S (S (S (S (S (S (S (S (S (S (S (S (S
       O))))))))))))))))))))))))))))))))))
  then option_map (fun vr -> ((LStr (fst vr)), (snd vr))) (lex_sbody SNorm r)
  else if is_minus c
       then if starts_number r
            then let tr = ppnum false r in
                 option_map (fun l -> (l, (snd tr)))
                   (number_value true (fst tr))
            else None
       else if starts_number s
            then let tr = ppnum false s in
                 option_map (fun l -> (l, (snd tr)))
                   (number_value false (fst tr))
            else if is_alpha_ c
                 then let tr = ident s in
                      if eqb0 (fst tr) ('t'::('r'::('u'::('e'::[]))))
                      then Some ((LBool true), (snd tr))
                      else if eqb0 (fst tr)
                                ('f'::('a'::('l'::('s'::('e'::[])))))
                           then Some ((LBool false), (snd tr))
                           else None
                 else None

(** val s_literal : literal -> sexp **)

let s_literal = function
| LInt z0 -> s_tag ('i'::('n'::('t'::[]))) ((s_Z z0) :: [])
| LFloat (neg, m, e) ->
  s_tag ('f'::('l'::('o'::('a'::('t'::[]))))) ((s_bool neg) :: ((SAtom
    (dec_N m)) :: ((s_Z e) :: [])))
| LBool b -> s_tag ('b'::('o'::('o'::('l'::[])))) ((s_bool b) :: [])
| LStr s -> s_tag ('s'::('t'::('r'::[]))) ((SAtom s) :: [])

(** val run_lex_prefix : sexp -> sexp **)

let run_lex_prefix = function
| SAtom t ->
  (match lex_prefix t with
   | Some p ->
     let (l, rest) = p in
     s_tag ('s'::('o'::('m'::('e'::[])))) ((s_literal l) :: ((SAtom
       rest) :: []))
   | None -> s_tag ('n'::('o'::('n'::('e'::[])))) [])
| SList _ -> bad_input

type const =
| CInt of z
| CFloat of char list
| CBool of bool
| CStr of char list
| COther

type ctype =
| TInt
| TDouble
| TBool
| TString

(** val ctype_name : ctype -> char list **)

let ctype_name = function
| TInt -> 'i'::('n'::('t'::[]))
| TDouble -> 'd'::('o'::('u'::('b'::('l'::('e'::[])))))
| TBool -> 'b'::('o'::('o'::('l'::[])))
| TString -> 's'::('t'::('r'::('i'::('n'::('g'::[])))))

(** val octal3 : nat -> char list **)

let octal3 n0 =
  (digit_char
    (Nat.div n0 (S (S (S (S (S (S (S (S (S (S (S (S (S (S (S (S (S (S (S (S
      (S (S (S (S (S (S (S (S (S (S (S (S (S (S (S (S (S (S (S (S (S (S (S (S
      (S (S (S (S (S (S (S (S (S (S (S (S (S (S (S (S (S (S (S (S
      O))))))))))))))))))))))))))))))))))))))))))))))))))))))))))))))))))::(
    (digit_char
      (Nat.modulo (Nat.div n0 (S (S (S (S (S (S (S (S O))))))))) (S (S (S (S
        (S (S (S (S O))))))))))::((digit_char
                                    (Nat.modulo n0 (S (S (S (S (S (S (S (S
                                      O))))))))))::[]))

(** val escape_char : char -> char list **)

let escape_char c =
  let n0 = nat_of_ascii c in
  if Nat.eqb n0 (S (S (S (S (S (S (S (S (S (S (S (S (S (S (S (S (S (S (S (S
       (S (S (S (S (S (S (S (S (S (S (S (S (S (S
       O))))))))))))))))))))))))))))))))))
  then '\\'::('"'::[])
  else if Nat.eqb n0 (S (S (S (S (S (S (S (S (S (S (S (S (S (S (S (S (S (S (S
            (S (S (S (S (S (S (S (S (S (S (S (S (S (S (S (S (S (S (S (S (S (S
            (S (S (S (S (S (S (S (S (S (S (S (S (S (S (S (S (S (S (S (S (S (S
            (S (S (S (S (S (S (S (S (S (S (S (S (S (S (S (S (S (S (S (S (S (S
            (S (S (S (S (S (S (S
            O))))))))))))))))))))))))))))))))))))))))))))))))))))))))))))))))))))))))))))))))))))))))))))
       then '\\'::('\\'::[])
       else if Nat.eqb n0 (S (S (S (S (S (S (S (S (S (S O))))))))))
            then '\\'::('n'::[])
            else if Nat.eqb n0 (S (S (S (S (S (S (S (S (S O)))))))))
                 then '\\'::('t'::[])
                 else if Nat.eqb n0 (S (S (S (S (S (S (S (S (S (S (S (S (S
                           O)))))))))))))
                      then '\\'::('r'::[])
                      else if (||)
                                (Nat.ltb n0 (S (S (S (S (S (S (S (S (S (S (S
                                  (S (S (S (S (S (S (S (S (S (S (S (S (S (S
                                  (S (S (S (S (S (S (S
                                  O)))))))))))))))))))))))))))))))))
                                (Nat.eqb n0 (S (S (S (S (S (S (S (S (S (S (S
                                  (S (S (S (S (S (S (S (S (S (S (S (S (S (S
                                  (S (S (S (S (S (S (S (S (S (S (S (S (S (S
                                  (S (S (S (S (S (S (S (S (S (S (S (S (S (S
                                  (S (S (S (S (S (S (S (S (S (S (S (S (S (S
                                  (S (S (S (S (S (S (S (S (S (S (S (S (S (S
                                  (S (S (S (S (S (S (S (S (S (S (S (S (S (S
                                  (S (S (S (S (S (S (S (S (S (S (S (S (S (S
                                  (S (S (S (S (S (S (S (S (S (S (S (S (S (S
                                  (S (S (S (S
                                  O))))))))))))))))))))))))))))))))))))))))))))))))))))))))))))))))))))))))))))))))))))))))))))))))))))))))))))))))))))))))))))))))
                           then '\\'::(octal3 n0)
                           else c::[]

(** val escape : char list -> char list **)

let rec escape = function
| [] -> []
| c::r -> append (escape_char c) (escape r)

(** val cpp_string_literal : char list -> char list **)

let cpp_string_literal s =
  '"'::(append (escape s) ('"'::[]))

(** val nonfinite_repr : char list -> bool **)

let nonfinite_repr t =
  (||)
    ((||) (eqb0 t ('i'::('n'::('f'::[]))))
      (eqb0 t ('-'::('i'::('n'::('f'::[]))))))
    (eqb0 t ('n'::('a'::('n'::[]))))

(** val render : const -> (char list * ctype) result **)

let render = function
| CInt z0 ->
  if Z.leb (Zpos (XO (XO (XO (XO (XO (XO (XO (XO (XO (XO (XO (XO (XO (XO (XO
       (XO (XO (XO (XO (XO (XO (XO (XO (XO (XO (XO (XO (XO (XO (XO (XO (XO
       (XO (XO (XO (XO (XO (XO (XO (XO (XO (XO (XO (XO (XO (XO (XO (XO (XO
       (XO (XO (XO (XO (XO (XO (XO (XO (XO (XO (XO (XO (XO (XO
       XH))))))))))))))))))))))))))))))))))))))))))))))))))))))))))))))))
       (Z.abs z0)
  then Error ErrValue
  else OK ((dec_Z z0), TInt)
| CFloat t -> if nonfinite_repr t then Error ErrValue else OK (t, TDouble)
| CBool b ->
  OK
    ((if b
      then 't'::('r'::('u'::('e'::[])))
      else 'f'::('a'::('l'::('s'::('e'::[]))))), TBool)
| CStr s -> OK ((cpp_string_literal s), TString)
| COther -> Error ErrValue

(** val render_v0 : const -> (char list * ctype) result **)

let render_v0 = function
| CInt z0 -> OK ((dec_Z z0), TInt)
| CFloat t -> OK (t, TDouble)
| CBool b ->
  OK
    ((if b
      then 't'::('r'::('u'::('e'::[])))
      else 'f'::('a'::('l'::('s'::('e'::[]))))), TBool)
| CStr s -> OK (('"'::(append s ('"'::[]))), TString)
| COther -> Error ErrValue

(** val is_e_lower : char -> bool **)

let is_e_lower c =
  Nat.eqb (nat_of_ascii c) (S (S (S (S (S (S (S (S (S (S (S (S (S (S (S (S (S
    (S (S (S (S (S (S (S (S (S (S (S (S (S (S (S (S (S (S (S (S (S (S (S (S
    (S (S (S (S (S (S (S (S (S (S (S (S (S (S (S (S (S (S (S (S (S (S (S (S
    (S (S (S (S (S (S (S (S (S (S (S (S (S (S (S (S (S (S (S (S (S (S (S (S
    (S (S (S (S (S (S (S (S (S (S (S (S
    O)))))))))))))))))))))))))))))))))))))))))))))))))))))))))))))))))))))))))))))))))))))))))))))))))))))

(** val py_exp : char list -> bool **)

let py_exp = function
| [] -> false
| c::r ->
  (&&) ((&&) ((||) (is_plus c) (is_minus c)) (all_digits r))
    (Nat.leb (S (S O)) (length0 r))

(** val py_finite_body : char list -> bool **)

let py_finite_body s =
  let (m, o) = break_at is_e_lower s in
  (match o with
   | Some p ->
     let (_, ex) = p in
     (&&) (py_exp ex)
       (let (ip, o0) = break_at is_dot m in
        (match o0 with
         | Some p0 -> let (_, fp) = p0 in (&&) (digits1 ip) (digits1 fp)
         | None -> digits1 ip))
   | None ->
     let (ip, o0) = break_at is_dot m in
     (match o0 with
      | Some p -> let (_, fp) = p in (&&) (digits1 ip) (digits1 fp)
      | None -> false))

(** val strip_minus : char list -> bool * char list **)

let strip_minus s = match s with
| [] -> (false, s)
| c::r -> if is_minus c then (true, r) else (false, s)

(** val py_float_finite : char list -> bool **)

let py_float_finite t =
  py_finite_body (snd (strip_minus t))

(** val py_float_repr : char list -> bool **)

let py_float_repr t =
  (||) (py_float_finite t) (nonfinite_repr t)

(** val is_word : char -> bool **)

let is_word c =
  (||) (is_idchar c)
    (Nat.leb (S (S (S (S (S (S (S (S (S (S (S (S (S (S (S (S (S (S (S (S (S
      (S (S (S (S (S (S (S (S (S (S (S (S (S (S (S (S (S (S (S (S (S (S (S (S
      (S (S (S (S (S (S (S (S (S (S (S (S (S (S (S (S (S (S (S (S (S (S (S (S
      (S (S (S (S (S (S (S (S (S (S (S (S (S (S (S (S (S (S (S (S (S (S (S (S
      (S (S (S (S (S (S (S (S (S (S (S (S (S (S (S (S (S (S (S (S (S (S (S (S
      (S (S (S (S (S (S (S (S (S (S (S
      O))))))))))))))))))))))))))))))))))))))))))))))))))))))))))))))))))))))))))))))))))))))))))))))))))))))))))))))))))))))))))))))))
      (nat_of_ascii c))

(** val starts_with : char list -> char list -> char list option **)

let rec starts_with w s =
  match w with
  | [] -> Some s
  | a::w' ->
    (match s with
     | [] -> None
     | b::s' -> if (=) a b then starts_with w' s' else None)

(** val literal_at :
    char list -> char list -> (literal * char list) option **)

let literal_at pre line =
  match starts_with pre line with
  | Some r -> lex_prefix r
  | None -> None

(** val boundary_after : char list -> bool **)

let boundary_after = function
| [] -> true
| c::_ -> negb (is_word c)

(** val match_name :
    (char list * char list) list -> char list -> (char list * nat) option **)

let rec match_name repl s =
  match repl with
  | [] -> None
  | p :: more ->
    let (w, d) = p in
    (match starts_with w s with
     | Some rest ->
       if boundary_after rest
       then Some (d, (length0 w))
       else match_name more s
     | None -> match_name more s)

(** val replace_words_aux :
    (char list * char list) list -> nat -> bool -> char list -> char list **)

let rec replace_words_aux repl skip prev_word s = match s with
| [] -> []
| c::r ->
  (match skip with
   | O ->
     (match if prev_word then None else match_name repl s with
      | Some p ->
        let (d, n0) = p in
        append d (replace_words_aux repl (sub n0 (S O)) (is_word c) r)
      | None -> c::(replace_words_aux repl O (is_word c) r))
   | S k -> replace_words_aux repl k (is_word c) r)

(** val subst_line :
    (char list * char list) list -> char list -> char list **)

let subst_line repl line =
  match repl with
  | [] -> line
  | _ :: _ -> replace_words_aux repl O false line

type backend =
| Atlas
| CmsAod
| CmsMiniaod

(** val bank_template : backend -> char list -> char list **)

let bank_template b ty =
  match b with
  | Atlas ->
    'A'::('N'::('A'::('_'::('C'::('H'::('E'::('C'::('K'::(' '::('('::('e'::('v'::('t'::('S'::('t'::('o'::('r'::('e'::('('::(')'::('-'::('>'::('r'::('e'::('t'::('r'::('i'::('e'::('v'::('e'::('('::('r'::('e'::('s'::('u'::('l'::('t'::(','::(' '::('c'::('o'::('l'::('l'::('e'::('c'::('t'::('i'::('o'::('n'::('_'::('n'::('a'::('m'::('e'::(')'::(')'::(';'::[])))))))))))))))))))))))))))))))))))))))))))))))))))))))))
  | CmsAod ->
    'i'::('E'::('v'::('e'::('n'::('t'::('.'::('g'::('e'::('t'::('B'::('y'::('L'::('a'::('b'::('e'::('l'::('('::('c'::('o'::('l'::('l'::('e'::('c'::('t'::('i'::('o'::('n'::('_'::('n'::('a'::('m'::('e'::(','::(' '::('r'::('e'::('s'::('u'::('l'::('t'::(')'::(';'::[]))))))))))))))))))))))))))))))))))))))))))
  | CmsMiniaod ->
    append ('c'::('o'::('n'::('s'::('u'::('m'::('e'::('s'::('<'::[])))))))))
      (append ty
        ('>'::('('::('e'::('d'::('m'::(':'::(':'::('I'::('n'::('p'::('u'::('t'::('T'::('a'::('g'::('('::('c'::('o'::('l'::('l'::('e'::('c'::('t'::('i'::('o'::('n'::('_'::('n'::('a'::('m'::('e'::(')'::(')'::[]))))))))))))))))))))))))))))))))))

(** val bank_line : backend -> char list -> char list -> char list result **)

let bank_line b ty name =
  match render (CStr name) with
  | OK a ->
    let (txt, _) = a in
    OK
    (subst_line
      ((('c'::('o'::('l'::('l'::('e'::('c'::('t'::('i'::('o'::('n'::('_'::('n'::('a'::('m'::('e'::[]))))))))))))))),
      txt) :: []) (bank_template b ty))
  | Error e -> Error e

(** val attribute_line : char list -> char list -> char list result **)

let attribute_line obj attr =
  match render (CStr attr) with
  | OK a ->
    let (txt, _) = a in
    OK
    (subst_line ((('o'::('b'::('j'::('_'::('j'::[]))))),
      obj) :: ((('m'::('o'::('m'::('e'::('n'::('t'::('_'::('n'::('a'::('m'::('e'::[]))))))))))),
      txt) :: []))
      ('a'::('u'::('t'::('o'::(' '::('r'::('e'::('s'::('u'::('l'::('t'::(' '::('='::(' '::('o'::('b'::('j'::('_'::('j'::('-'::('>'::('g'::('e'::('t'::('A'::('t'::('t'::('r'::('i'::('b'::('u'::('t'::('e'::('<'::('f'::('l'::('o'::('a'::('t'::('>'::('('::('m'::('o'::('m'::('e'::('n'::('t'::('_'::('n'::('a'::('m'::('e'::(')'::(';'::[])))))))))))))))))))))))))))))))))))))))))))))))))))))))
  | Error e -> Error e

(** val branch_line : (char list * char list) -> char list **)

let branch_line leaf =
  append
    ('m'::('y'::('T'::('r'::('e'::('e'::('-'::('>'::('B'::('r'::('a'::('n'::('c'::('h'::('('::[])))))))))))))))
    (append (cpp_string_literal (fst leaf))
      (append (','::(' '::('&'::[]))) (append (snd leaf) (')'::(';'::[])))))

(** val book_lines :
    backend -> char list -> (char list * char list) list -> char list list **)

let book_lines b tree leaves =
  match b with
  | Atlas ->
    (append
      ('A'::('N'::('A'::('_'::('C'::('H'::('E'::('C'::('K'::(' '::('('::('b'::('o'::('o'::('k'::(' '::('('::('T'::('T'::('r'::('e'::('e'::(' '::('('::[]))))))))))))))))))))))))
      (append (cpp_string_literal tree)
        (','::(' '::('"'::('M'::('y'::(' '::('a'::('n'::('a'::('l'::('y'::('s'::('i'::('s'::(' '::('n'::('t'::('u'::('p'::('l'::('e'::('"'::(')'::(')'::(')'::(';'::[])))))))))))))))))))))))))))) :: (
      (append
        ('a'::('u'::('t'::('o'::(' '::('m'::('y'::('T'::('r'::('e'::('e'::(' '::('='::(' '::('t'::('r'::('e'::('e'::(' '::('('::[]))))))))))))))))))))
        (append (cpp_string_literal tree) (')'::(';'::[])))) :: (map
                                                                  branch_line
                                                                  leaves))
  | _ ->
    ('e'::('d'::('m'::(':'::(':'::('S'::('e'::('r'::('v'::('i'::('c'::('e'::('<'::('T'::('F'::('i'::('l'::('e'::('S'::('e'::('r'::('v'::('i'::('c'::('e'::('>'::(' '::('f'::('s'::(';'::[])))))))))))))))))))))))))))))) :: (
      (append
        ('m'::('y'::('T'::('r'::('e'::('e'::(' '::('='::(' '::('f'::('s'::('-'::('>'::('m'::('a'::('k'::('e'::('<'::('T'::('T'::('r'::('e'::('e'::('>'::('('::[])))))))))))))))))))))))))
        (append (cpp_string_literal tree)
          (','::(' '::('"'::('M'::('y'::(' '::('a'::('n'::('a'::('l'::('y'::('s'::('i'::('s'::(' '::('n'::('t'::('u'::('p'::('l'::('e'::('"'::(')'::(';'::[])))))))))))))))))))))))))) :: 
      (map branch_line leaves))

(** val fill_line : backend -> char list -> char list **)

let fill_line b tree =
  match b with
  | Atlas ->
    append ('t'::('r'::('e'::('e'::('('::[])))))
      (append (cpp_string_literal tree)
        (')'::('-'::('>'::('F'::('i'::('l'::('l'::('('::(')'::(';'::[])))))))))))
  | _ ->
    'm'::('y'::('T'::('r'::('e'::('e'::('-'::('>'::('F'::('i'::('l'::('l'::('('::(')'::(';'::[]))))))))))))))

(** val d_const : sexp -> const option **)

let d_const = function
| SAtom _ -> None
| SList l ->
  (match l with
   | [] -> None
   | s0 :: l0 ->
     (match s0 with
      | SAtom s1 ->
        (match s1 with
         | [] -> None
         | a::s2 ->
           (* If this appears, you're using Ascii internals. Please don't *)
 (fun f c ->
  let n = Char.code c in
  let h i = (n land (1 lsl i)) <> 0 in
  f (h 0) (h 1) (h 2) (h 3) (h 4) (h 5) (h 6) (h 7))
             (fun b0 b1 b2 b3 b4 b5 b6 b7 ->
             if b0
             then if b1
                  then if b2
                       then if b3
                            then if b4
                                 then None
                                 else if b5
                                      then if b6
                                           then if b7
                                                then None
                                                else (match s2 with
                                                      | [] -> None
                                                      | a0::s3 ->
                                                        (* If this appears, you're using Ascii internals. Please don't *)
 (fun f c ->
  let n = Char.code c in
  let h i = (n land (1 lsl i)) <> 0 in
  f (h 0) (h 1) (h 2) (h 3) (h 4) (h 5) (h 6) (h 7))
                                                          (fun b b8 b9 b10 b11 b12 b13 b14 ->
                                                          if b
                                                          then None
                                                          else if b8
                                                               then None
                                                               else if b9
                                                                    then 
                                                                    if b10
                                                                    then None
                                                                    else 
                                                                    if b11
                                                                    then 
                                                                    if b12
                                                                    then 
                                                                    if b13
                                                                    then 
                                                                    if b14
                                                                    then None
                                                                    else 
                                                                    (match s3 with
                                                                    | [] ->
                                                                    None
                                                                    | a1::s4 ->
                                                                    (* If this appears, you're using Ascii internals. Please don't *)
 (fun f c ->
  let n = Char.code c in
  let h i = (n land (1 lsl i)) <> 0 in
  f (h 0) (h 1) (h 2) (h 3) (h 4) (h 5) (h 6) (h 7))
                                                                    (fun b15 b16 b17 b18 b19 b20 b21 b22 ->
                                                                    if b15
                                                                    then None
                                                                    else 
                                                                    if b16
                                                                    then None
                                                                    else 
                                                                    if b17
                                                                    then None
                                                                    else 
                                                                    if b18
                                                                    then 
                                                                    if b19
                                                                    then None
                                                                    else 
                                                                    if b20
                                                                    then 
                                                                    if b21
                                                                    then 
                                                                    if b22
                                                                    then None
                                                                    else 
                                                                    (match s4 with
                                                                    | [] ->
                                                                    None
                                                                    | a2::s5 ->
                                                                    (* If this appears, you're using Ascii internals. Please don't *)
 (fun f c ->
  let n = Char.code c in
  let h i = (n land (1 lsl i)) <> 0 in
  f (h 0) (h 1) (h 2) (h 3) (h 4) (h 5) (h 6) (h 7))
                                                                    (fun b23 b24 b25 b26 b27 b28 b29 b30 ->
                                                                    if b23
                                                                    then 
                                                                    if b24
                                                                    then None
                                                                    else 
                                                                    if b25
                                                                    then 
                                                                    if b26
                                                                    then None
                                                                    else 
                                                                    if b27
                                                                    then None
                                                                    else 
                                                                    if b28
                                                                    then 
                                                                    if b29
                                                                    then 
                                                                    if b30
                                                                    then None
                                                                    else 
                                                                    (match s5 with
                                                                    | [] ->
                                                                    None
                                                                    | a3::s6 ->
                                                                    (* If this appears, you're using Ascii internals. Please don't *)
 (fun f c ->
  let n = Char.code c in
  let h i = (n land (1 lsl i)) <> 0 in
  f (h 0) (h 1) (h 2) (h 3) (h 4) (h 5) (h 6) (h 7))
                                                                    (fun b31 b32 b33 b34 b35 b36 b37 b38 ->
                                                                    if b31
                                                                    then None
                                                                    else 
                                                                    if b32
                                                                    then 
                                                                    if b33
                                                                    then None
                                                                    else 
                                                                    if b34
                                                                    then None
                                                                    else 
                                                                    if b35
                                                                    then 
                                                                    if b36
                                                                    then 
                                                                    if b37
                                                                    then 
                                                                    if b38
                                                                    then None
                                                                    else 
                                                                    (match s6 with
                                                                    | [] ->
                                                                    (match l0 with
                                                                    | [] ->
                                                                    Some
                                                                    COther
                                                                    | _ :: _ ->
                                                                    None)
                                                                    | _::_ ->
                                                                    None)
                                                                    else None
                                                                    else None
                                                                    else None
                                                                    else None)
                                                                    a3)
                                                                    else None
                                                                    else None
                                                                    else None
                                                                    else None)
                                                                    a2)
                                                                    else None
                                                                    else None
                                                                    else None)
                                                                    a1)
                                                                    else None
                                                                    else None
                                                                    else None
                                                                    else None)
                                                          a0)
                                           else None
                                      else None
                            else None
                       else if b3
                            then None
                            else if b4
                                 then if b5
                                      then if b6
                                           then if b7
                                                then None
                                                else (match s2 with
                                                      | [] -> None
                                                      | a0::s3 ->
                                                        (* If this appears, you're using Ascii internals. Please don't *)
 (fun f c ->
  let n = Char.code c in
  let h i = (n land (1 lsl i)) <> 0 in
  f (h 0) (h 1) (h 2) (h 3) (h 4) (h 5) (h 6) (h 7))
                                                          (fun b b8 b9 b10 b11 b12 b13 b14 ->
                                                          if b
                                                          then None
                                                          else if b8
                                                               then None
                                                               else if b9
                                                                    then 
                                                                    if b10
                                                                    then None
                                                                    else 
                                                                    if b11
                                                                    then 
                                                                    if b12
                                                                    then 
                                                                    if b13
                                                                    then 
                                                                    if b14
                                                                    then None
                                                                    else 
                                                                    (match s3 with
                                                                    | [] ->
                                                                    None
                                                                    | a1::s4 ->
                                                                    (* If this appears, you're using Ascii internals. Please don't *)
 (fun f c ->
  let n = Char.code c in
  let h i = (n land (1 lsl i)) <> 0 in
  f (h 0) (h 1) (h 2) (h 3) (h 4) (h 5) (h 6) (h 7))
                                                                    (fun b15 b16 b17 b18 b19 b20 b21 b22 ->
                                                                    if b15
                                                                    then None
                                                                    else 
                                                                    if b16
                                                                    then 
                                                                    if b17
                                                                    then None
                                                                    else 
                                                                    if b18
                                                                    then None
                                                                    else 
                                                                    if b19
                                                                    then 
                                                                    if b20
                                                                    then 
                                                                    if b21
                                                                    then 
                                                                    if b22
                                                                    then None
                                                                    else 
                                                                    (match s4 with
                                                                    | [] ->
                                                                    (match l0 with
                                                                    | [] ->
                                                                    None
                                                                    | s5 :: l1 ->
                                                                    (match s5 with
                                                                    | SAtom t ->
                                                                    (match l1 with
                                                                    | [] ->
                                                                    Some
                                                                    (CStr t)
                                                                    | _ :: _ ->
                                                                    None)
                                                                    | SList _ ->
                                                                    None))
                                                                    | _::_ ->
                                                                    None)
                                                                    else None
                                                                    else None
                                                                    else None
                                                                    else None)
                                                                    a1)
                                                                    else None
                                                                    else None
                                                                    else None
                                                                    else None)
                                                          a0)
                                           else None
                                      else None
                                 else None
                  else if b2
                       then None
                       else if b3
                            then if b4
                                 then None
                                 else if b5
                                      then if b6
                                           then if b7
                                                then None
                                                else (match s2 with
                                                      | [] -> None
                                                      | a0::s3 ->
                                                        (* If this appears, you're using Ascii internals. Please don't *)
 (fun f c ->
  let n = Char.code c in
  let h i = (n land (1 lsl i)) <> 0 in
  f (h 0) (h 1) (h 2) (h 3) (h 4) (h 5) (h 6) (h 7))
                                                          (fun b b8 b9 b10 b11 b12 b13 b14 ->
                                                          if b
                                                          then None
                                                          else if b8
                                                               then if b9
                                                                    then 
                                                                    if b10
                                                                    then 
                                                                    if b11
                                                                    then None
                                                                    else 
                                                                    if b12
                                                                    then 
                                                                    if b13
                                                                    then 
                                                                    if b14
                                                                    then None
                                                                    else 
                                                                    (match s3 with
                                                                    | [] ->
                                                                    None
                                                                    | a1::s4 ->
                                                                    (* If this appears, you're using Ascii internals. Please don't *)
 (fun f c ->
  let n = Char.code c in
  let h i = (n land (1 lsl i)) <> 0 in
  f (h 0) (h 1) (h 2) (h 3) (h 4) (h 5) (h 6) (h 7))
                                                                    (fun b15 b16 b17 b18 b19 b20 b21 b22 ->
                                                                    if b15
                                                                    then None
                                                                    else 
                                                                    if b16
                                                                    then None
                                                                    else 
                                                                    if b17
                                                                    then 
                                                                    if b18
                                                                    then None
                                                                    else 
                                                                    if b19
                                                                    then 
                                                                    if b20
                                                                    then 
                                                                    if b21
                                                                    then 
                                                                    if b22
                                                                    then None
                                                                    else 
                                                                    (match s4 with
                                                                    | [] ->
                                                                    (match l0 with
                                                                    | [] ->
                                                                    None
                                                                    | z0 :: l1 ->
                                                                    (match l1 with
                                                                    | [] ->
                                                                    option_map
                                                                    (fun x ->
                                                                    CInt x)
                                                                    (d_Z z0)
                                                                    | _ :: _ ->
                                                                    None))
                                                                    | _::_ ->
                                                                    None)
                                                                    else None
                                                                    else None
                                                                    else None
                                                                    else None)
                                                                    a1)
                                                                    else None
                                                                    else None
                                                                    else None
                                                                    else None
                                                               else None)
                                                          a0)
                                           else None
                                      else None
                            else None
             else if b1
                  then if b2
                       then if b3
                            then None
                            else if b4
                                 then None
                                 else if b5
                                      then if b6
                                           then if b7
                                                then None
                                                else (match s2 with
                                                      | [] -> None
                                                      | a0::s3 ->
                                                        (* If this appears, you're using Ascii internals. Please don't *)
 (fun f c ->
  let n = Char.code c in
  let h i = (n land (1 lsl i)) <> 0 in
  f (h 0) (h 1) (h 2) (h 3) (h 4) (h 5) (h 6) (h 7))
                                                          (fun b b8 b9 b10 b11 b12 b13 b14 ->
                                                          if b
                                                          then None
                                                          else if b8
                                                               then None
                                                               else if b9
                                                                    then 
                                                                    if b10
                                                                    then 
                                                                    if b11
                                                                    then None
                                                                    else 
                                                                    if b12
                                                                    then 
                                                                    if b13
                                                                    then 
                                                                    if b14
                                                                    then None
                                                                    else 
                                                                    (match s3 with
                                                                    | [] ->
                                                                    None
                                                                    | a1::s4 ->
                                                                    (* If this appears, you're using Ascii internals. Please don't *)
 (fun f c ->
  let n = Char.code c in
  let h i = (n land (1 lsl i)) <> 0 in
  f (h 0) (h 1) (h 2) (h 3) (h 4) (h 5) (h 6) (h 7))
                                                                    (fun b15 b16 b17 b18 b19 b20 b21 b22 ->
                                                                    if b15
                                                                    then 
                                                                    if b16
                                                                    then 
                                                                    if b17
                                                                    then 
                                                                    if b18
                                                                    then 
                                                                    if b19
                                                                    then None
                                                                    else 
                                                                    if b20
                                                                    then 
                                                                    if b21
                                                                    then 
                                                                    if b22
                                                                    then None
                                                                    else 
                                                                    (match s4 with
                                                                    | [] ->
                                                                    None
                                                                    | a2::s5 ->
                                                                    (* If this appears, you're using Ascii internals. Please don't *)
 (fun f c ->
  let n = Char.code c in
  let h i = (n land (1 lsl i)) <> 0 in
  f (h 0) (h 1) (h 2) (h 3) (h 4) (h 5) (h 6) (h 7))
                                                                    (fun b23 b24 b25 b26 b27 b28 b29 b30 ->
                                                                    if b23
                                                                    then 
                                                                    if b24
                                                                    then None
                                                                    else 
                                                                    if b25
                                                                    then None
                                                                    else 
                                                                    if b26
                                                                    then None
                                                                    else 
                                                                    if b27
                                                                    then None
                                                                    else 
                                                                    if b28
                                                                    then 
                                                                    if b29
                                                                    then 
                                                                    if b30
                                                                    then None
                                                                    else 
                                                                    (match s5 with
                                                                    | [] ->
                                                                    None
                                                                    | a3::s6 ->
                                                                    (* If this appears, you're using Ascii internals. Please don't *)
 (fun f c ->
  let n = Char.code c in
  let h i = (n land (1 lsl i)) <> 0 in
  f (h 0) (h 1) (h 2) (h 3) (h 4) (h 5) (h 6) (h 7))
                                                                    (fun b31 b32 b33 b34 b35 b36 b37 b38 ->
                                                                    if b31
                                                                    then None
                                                                    else 
                                                                    if b32
                                                                    then None
                                                                    else 
                                                                    if b33
                                                                    then 
                                                                    if b34
                                                                    then None
                                                                    else 
                                                                    if b35
                                                                    then 
                                                                    if b36
                                                                    then 
                                                                    if b37
                                                                    then 
                                                                    if b38
                                                                    then None
                                                                    else 
                                                                    (match s6 with
                                                                    | [] ->
                                                                    (match l0 with
                                                                    | [] ->
                                                                    None
                                                                    | s7 :: l1 ->
                                                                    (match s7 with
                                                                    | SAtom t ->
                                                                    (match l1 with
                                                                    | [] ->
                                                                    Some
                                                                    (CFloat t)
                                                                    | _ :: _ ->
                                                                    None)
                                                                    | SList _ ->
                                                                    None))
                                                                    | _::_ ->
                                                                    None)
                                                                    else None
                                                                    else None
                                                                    else None
                                                                    else None)
                                                                    a3)
                                                                    else None
                                                                    else None
                                                                    else None)
                                                                    a2)
                                                                    else None
                                                                    else None
                                                                    else None
                                                                    else None
                                                                    else None
                                                                    else None)
                                                                    a1)
                                                                    else None
                                                                    else None
                                                                    else None
                                                                    else None)
                                                          a0)
                                           else None
                                      else None
                       else if b3
                            then None
                            else if b4
                                 then None
                                 else if b5
                                      then if b6
                                           then if b7
                                                then None
                                                else (match s2 with
                                                      | [] -> None
                                                      | a0::s3 ->
                                                        (* If this appears, you're using Ascii internals. Please don't *)
 (fun f c ->
  let n = Char.code c in
  let h i = (n land (1 lsl i)) <> 0 in
  f (h 0) (h 1) (h 2) (h 3) (h 4) (h 5) (h 6) (h 7))
                                                          (fun b8 b9 b10 b11 b12 b13 b14 b15 ->
                                                          if b8
                                                          then if b9
                                                               then if b10
                                                                    then 
                                                                    if b11
                                                                    then 
                                                                    if b12
                                                                    then None
                                                                    else 
                                                                    if b13
                                                                    then 
                                                                    if b14
                                                                    then 
                                                                    if b15
                                                                    then None
                                                                    else 
                                                                    (match s3 with
                                                                    | [] ->
                                                                    None
                                                                    | a1::s4 ->
                                                                    (* If this appears, you're using Ascii internals. Please don't *)
 (fun f c ->
  let n = Char.code c in
  let h i = (n land (1 lsl i)) <> 0 in
  f (h 0) (h 1) (h 2) (h 3) (h 4) (h 5) (h 6) (h 7))
                                                                    (fun b16 b17 b18 b19 b20 b21 b22 b23 ->
                                                                    if b16
                                                                    then 
                                                                    if b17
                                                                    then 
                                                                    if b18
                                                                    then 
                                                                    if b19
                                                                    then 
                                                                    if b20
                                                                    then None
                                                                    else 
                                                                    if b21
                                                                    then 
                                                                    if b22
                                                                    then 
                                                                    if b23
                                                                    then None
                                                                    else 
                                                                    (match s4 with
                                                                    | [] ->
                                                                    None
                                                                    | a2::s5 ->
                                                                    (* If this appears, you're using Ascii internals. Please don't *)
 (fun f c ->
  let n = Char.code c in
  let h i = (n land (1 lsl i)) <> 0 in
  f (h 0) (h 1) (h 2) (h 3) (h 4) (h 5) (h 6) (h 7))
                                                                    (fun b24 b25 b26 b27 b28 b29 b30 b31 ->
                                                                    if b24
                                                                    then None
                                                                    else 
                                                                    if b25
                                                                    then None
                                                                    else 
                                                                    if b26
                                                                    then 
                                                                    if b27
                                                                    then 
                                                                    if b28
                                                                    then None
                                                                    else 
                                                                    if b29
                                                                    then 
                                                                    if b30
                                                                    then 
                                                                    if b31
                                                                    then None
                                                                    else 
                                                                    (match s5 with
                                                                    | [] ->
                                                                    (match l0 with
                                                                    | [] ->
                                                                    None
                                                                    | b :: l1 ->
                                                                    (match l1 with
                                                                    | [] ->
                                                                    option_map
                                                                    (fun x ->
                                                                    CBool x)
                                                                    (d_bool b)
                                                                    | _ :: _ ->
                                                                    None))
                                                                    | _::_ ->
                                                                    None)
                                                                    else None
                                                                    else None
                                                                    else None
                                                                    else None)
                                                                    a2)
                                                                    else None
                                                                    else None
                                                                    else None
                                                                    else None
                                                                    else None
                                                                    else None)
                                                                    a1)
                                                                    else None
                                                                    else None
                                                                    else None
                                                                    else None
                                                               else None
                                                          else None)
                                                          a0)
                                           else None
                                      else None
                  else None)
             a)
      | SList _ -> None))

(** val d_backend : sexp -> backend option **)

let d_backend = function
| SAtom s0 ->
  (match s0 with
   | [] -> None
   | a::s1 ->
     (* If this appears, you're using Ascii internals. Please don't *)
 (fun f c ->
  let n = Char.code c in
  let h i = (n land (1 lsl i)) <> 0 in
  f (h 0) (h 1) (h 2) (h 3) (h 4) (h 5) (h 6) (h 7))
       (fun b b0 b1 b2 b3 b4 b5 b6 ->
       if b
       then if b0
            then if b1
                 then None
                 else if b2
                      then None
                      else if b3
                           then None
                           else if b4
                                then if b5
                                     then if b6
                                          then None
                                          else (match s1 with
                                                | [] -> None
                                                | a0::s2 ->
                                                  (* If this appears, you're using Ascii internals. Please don't *)
 (fun f c ->
  let n = Char.code c in
  let h i = (n land (1 lsl i)) <> 0 in
  f (h 0) (h 1) (h 2) (h 3) (h 4) (h 5) (h 6) (h 7))
                                                    (fun b7 b8 b9 b10 b11 b12 b13 b14 ->
                                                    if b7
                                                    then if b8
                                                         then None
                                                         else if b9
                                                              then if b10
                                                                   then 
                                                                    if b11
                                                                    then None
                                                                    else 
                                                                    if b12
                                                                    then 
                                                                    if b13
                                                                    then 
                                                                    if b14
                                                                    then None
                                                                    else 
                                                                    (match s2 with
                                                                    | [] ->
                                                                    None
                                                                    | a1::s3 ->
                                                                    (* If this appears, you're using Ascii internals. Please don't *)
 (fun f c ->
  let n = Char.code c in
  let h i = (n land (1 lsl i)) <> 0 in
  f (h 0) (h 1) (h 2) (h 3) (h 4) (h 5) (h 6) (h 7))
                                                                    (fun b15 b16 b17 b18 b19 b20 b21 b22 ->
                                                                    if b15
                                                                    then 
                                                                    if b16
                                                                    then 
                                                                    if b17
                                                                    then None
                                                                    else 
                                                                    if b18
                                                                    then None
                                                                    else 
                                                                    if b19
                                                                    then 
                                                                    if b20
                                                                    then 
                                                                    if b21
                                                                    then 
                                                                    if b22
                                                                    then None
                                                                    else 
                                                                    (match s3 with
                                                                    | [] ->
                                                                    None
                                                                    | a2::s4 ->
                                                                    (* If this appears, you're using Ascii internals. Please don't *)
 (fun f c ->
  let n = Char.code c in
  let h i = (n land (1 lsl i)) <> 0 in
  f (h 0) (h 1) (h 2) (h 3) (h 4) (h 5) (h 6) (h 7))
                                                                    (fun b23 b24 b25 b26 b27 b28 b29 b30 ->
                                                                    if b23
                                                                    then 
                                                                    if b24
                                                                    then 
                                                                    if b25
                                                                    then 
                                                                    if b26
                                                                    then 
                                                                    if b27
                                                                    then 
                                                                    if b28
                                                                    then None
                                                                    else 
                                                                    if b29
                                                                    then 
                                                                    if b30
                                                                    then None
                                                                    else 
                                                                    (match s4 with
                                                                    | [] ->
                                                                    None
                                                                    | a3::s5 ->
                                                                    (* If this appears, you're using Ascii internals. Please don't *)
 (fun f c ->
  let n = Char.code c in
  let h i = (n land (1 lsl i)) <> 0 in
  f (h 0) (h 1) (h 2) (h 3) (h 4) (h 5) (h 6) (h 7))
                                                                    (fun b31 b32 b33 b34 b35 b36 b37 b38 ->
                                                                    if b31
                                                                    then 
                                                                    if b32
                                                                    then None
                                                                    else 
                                                                    if b33
                                                                    then 
                                                                    if b34
                                                                    then 
                                                                    if b35
                                                                    then None
                                                                    else 
                                                                    if b36
                                                                    then 
                                                                    if b37
                                                                    then 
                                                                    if b38
                                                                    then None
                                                                    else 
                                                                    (match s5 with
                                                                    | [] ->
                                                                    None
                                                                    | a4::s6 ->
                                                                    (* If this appears, you're using Ascii internals. Please don't *)
 (fun f c ->
  let n = Char.code c in
  let h i = (n land (1 lsl i)) <> 0 in
  f (h 0) (h 1) (h 2) (h 3) (h 4) (h 5) (h 6) (h 7))
                                                                    (fun b39 b40 b41 b42 b43 b44 b45 b46 ->
                                                                    if b39
                                                                    then 
                                                                    if b40
                                                                    then None
                                                                    else 
                                                                    if b41
                                                                    then None
                                                                    else 
                                                                    if b42
                                                                    then 
                                                                    if b43
                                                                    then None
                                                                    else 
                                                                    if b44
                                                                    then 
                                                                    if b45
                                                                    then 
                                                                    if b46
                                                                    then None
                                                                    else 
                                                                    (match s6 with
                                                                    | [] ->
                                                                    None
                                                                    | a5::s7 ->
                                                                    (* If this appears, you're using Ascii internals. Please don't *)
 (fun f c ->
  let n = Char.code c in
  let h i = (n land (1 lsl i)) <> 0 in
  f (h 0) (h 1) (h 2) (h 3) (h 4) (h 5) (h 6) (h 7))
                                                                    (fun b47 b48 b49 b50 b51 b52 b53 b54 ->
                                                                    if b47
                                                                    then None
                                                                    else 
                                                                    if b48
                                                                    then 
                                                                    if b49
                                                                    then 
                                                                    if b50
                                                                    then 
                                                                    if b51
                                                                    then None
                                                                    else 
                                                                    if b52
                                                                    then 
                                                                    if b53
                                                                    then 
                                                                    if b54
                                                                    then None
                                                                    else 
                                                                    (match s7 with
                                                                    | [] ->
                                                                    None
                                                                    | a6::s8 ->
                                                                    (* If this appears, you're using Ascii internals. Please don't *)
 (fun f c ->
  let n = Char.code c in
  let h i = (n land (1 lsl i)) <> 0 in
  f (h 0) (h 1) (h 2) (h 3) (h 4) (h 5) (h 6) (h 7))
                                                                    (fun b55 b56 b57 b58 b59 b60 b61 b62 ->
                                                                    if b55
                                                                    then 
                                                                    if b56
                                                                    then None
                                                                    else 
                                                                    if b57
                                                                    then None
                                                                    else 
                                                                    if b58
                                                                    then 
                                                                    if b59
                                                                    then None
                                                                    else 
                                                                    if b60
                                                                    then 
                                                                    if b61
                                                                    then 
                                                                    if b62
                                                                    then None
                                                                    else 
                                                                    (match s8 with
                                                                    | [] ->
                                                                    None
                                                                    | a7::s9 ->
                                                                    (* If this appears, you're using Ascii internals. Please don't *)
 (fun f c ->
  let n = Char.code c in
  let h i = (n land (1 lsl i)) <> 0 in
  f (h 0) (h 1) (h 2) (h 3) (h 4) (h 5) (h 6) (h 7))
                                                                    (fun b63 b64 b65 b66 b67 b68 b69 b70 ->
                                                                    if b63
                                                                    then 
                                                                    if b64
                                                                    then None
                                                                    else 
                                                                    if b65
                                                                    then None
                                                                    else 
                                                                    if b66
                                                                    then None
                                                                    else 
                                                                    if b67
                                                                    then None
                                                                    else 
                                                                    if b68
                                                                    then 
                                                                    if b69
                                                                    then 
                                                                    if b70
                                                                    then None
                                                                    else 
                                                                    (match s9 with
                                                                    | [] ->
                                                                    None
                                                                    | a8::s10 ->
                                                                    (* If this appears, you're using Ascii internals. Please don't *)
 (fun f c ->
  let n = Char.code c in
  let h i = (n land (1 lsl i)) <> 0 in
  f (h 0) (h 1) (h 2) (h 3) (h 4) (h 5) (h 6) (h 7))
                                                                    (fun b71 b72 b73 b74 b75 b76 b77 b78 ->
                                                                    if b71
                                                                    then 
                                                                    if b72
                                                                    then 
                                                                    if b73
                                                                    then 
                                                                    if b74
                                                                    then 
                                                                    if b75
                                                                    then None
                                                                    else 
                                                                    if b76
                                                                    then 
                                                                    if b77
                                                                    then 
                                                                    if b78
                                                                    then None
                                                                    else 
                                                                    (match s10 with
                                                                    | [] ->
                                                                    None
                                                                    | a9::s11 ->
                                                                    (* If this appears, you're using Ascii internals. Please don't *)
 (fun f c ->
  let n = Char.code c in
  let h i = (n land (1 lsl i)) <> 0 in
  f (h 0) (h 1) (h 2) (h 3) (h 4) (h 5) (h 6) (h 7))
                                                                    (fun b79 b80 b81 b82 b83 b84 b85 b86 ->
                                                                    if b79
                                                                    then None
                                                                    else 
                                                                    if b80
                                                                    then None
                                                                    else 
                                                                    if b81
                                                                    then 
                                                                    if b82
                                                                    then None
                                                                    else 
                                                                    if b83
                                                                    then None
                                                                    else 
                                                                    if b84
                                                                    then 
                                                                    if b85
                                                                    then 
                                                                    if b86
                                                                    then None
                                                                    else 
                                                                    (match s11 with
                                                                    | [] ->
                                                                    Some
                                                                    CmsMiniaod
                                                                    | _::_ ->
                                                                    None)
                                                                    else None
                                                                    else None
                                                                    else None)
                                                                    a9)
                                                                    else None
                                                                    else None
                                                                    else None
                                                                    else None
                                                                    else None
                                                                    else None)
                                                                    a8)
                                                                    else None
                                                                    else None
                                                                    else None)
                                                                    a7)
                                                                    else None
                                                                    else None
                                                                    else None
                                                                    else None)
                                                                    a6)
                                                                    else None
                                                                    else None
                                                                    else None
                                                                    else None
                                                                    else None)
                                                                    a5)
                                                                    else None
                                                                    else None
                                                                    else None
                                                                    else None)
                                                                    a4)
                                                                    else None
                                                                    else None
                                                                    else None
                                                                    else 
                                                                    if b34
                                                                    then None
                                                                    else 
                                                                    if b35
                                                                    then None
                                                                    else 
                                                                    if b36
                                                                    then 
                                                                    if b37
                                                                    then 
                                                                    if b38
                                                                    then None
                                                                    else 
                                                                    (match s5 with
                                                                    | [] ->
                                                                    None
                                                                    | a4::s6 ->
                                                                    (* If this appears, you're using Ascii internals. Please don't *)
 (fun f c ->
  let n = Char.code c in
  let h i = (n land (1 lsl i)) <> 0 in
  f (h 0) (h 1) (h 2) (h 3) (h 4) (h 5) (h 6) (h 7))
                                                                    (fun b39 b40 b41 b42 b43 b44 b45 b46 ->
                                                                    if b39
                                                                    then 
                                                                    if b40
                                                                    then 
                                                                    if b41
                                                                    then 
                                                                    if b42
                                                                    then 
                                                                    if b43
                                                                    then None
                                                                    else 
                                                                    if b44
                                                                    then 
                                                                    if b45
                                                                    then 
                                                                    if b46
                                                                    then None
                                                                    else 
                                                                    (match s6 with
                                                                    | [] ->
                                                                    None
                                                                    | a5::s7 ->
                                                                    (* If this appears, you're using Ascii internals. Please don't *)
 (fun f c ->
  let n = Char.code c in
  let h i = (n land (1 lsl i)) <> 0 in
  f (h 0) (h 1) (h 2) (h 3) (h 4) (h 5) (h 6) (h 7))
                                                                    (fun b47 b48 b49 b50 b51 b52 b53 b54 ->
                                                                    if b47
                                                                    then None
                                                                    else 
                                                                    if b48
                                                                    then None
                                                                    else 
                                                                    if b49
                                                                    then 
                                                                    if b50
                                                                    then None
                                                                    else 
                                                                    if b51
                                                                    then None
                                                                    else 
                                                                    if b52
                                                                    then 
                                                                    if b53
                                                                    then 
                                                                    if b54
                                                                    then None
                                                                    else 
                                                                    (match s7 with
                                                                    | [] ->
                                                                    Some
                                                                    CmsAod
                                                                    | _::_ ->
                                                                    None)
                                                                    else None
                                                                    else None
                                                                    else None)
                                                                    a5)
                                                                    else None
                                                                    else None
                                                                    else None
                                                                    else None
                                                                    else None
                                                                    else None)
                                                                    a4)
                                                                    else None
                                                                    else None
                                                                    else None)
                                                                    a3)
                                                                    else None
                                                                    else None
                                                                    else None
                                                                    else None
                                                                    else None
                                                                    else None)
                                                                    a2)
                                                                    else None
                                                                    else None
                                                                    else None
                                                                    else None
                                                                    else None)
                                                                    a1)
                                                                    else None
                                                                    else None
                                                                   else None
                                                              else None
                                                    else None)
                                                    a0)
                                     else None
                                else None
            else if b1
                 then None
                 else if b2
                      then None
                      else if b3
                           then None
                           else if b4
                                then if b5
                                     then if b6
                                          then None
                                          else (match s1 with
                                                | [] -> None
                                                | a0::s2 ->
                                                  (* If this appears, you're using Ascii internals. Please don't *)
 (fun f c ->
  let n = Char.code c in
  let h i = (n land (1 lsl i)) <> 0 in
  f (h 0) (h 1) (h 2) (h 3) (h 4) (h 5) (h 6) (h 7))
                                                    (fun b7 b8 b9 b10 b11 b12 b13 b14 ->
                                                    if b7
                                                    then None
                                                    else if b8
                                                         then None
                                                         else if b9
                                                              then if b10
                                                                   then None
                                                                   else 
                                                                    if b11
                                                                    then 
                                                                    if b12
                                                                    then 
                                                                    if b13
                                                                    then 
                                                                    if b14
                                                                    then None
                                                                    else 
                                                                    (match s2 with
                                                                    | [] ->
                                                                    None
                                                                    | a1::s3 ->
                                                                    (* If this appears, you're using Ascii internals. Please don't *)
 (fun f c ->
  let n = Char.code c in
  let h i = (n land (1 lsl i)) <> 0 in
  f (h 0) (h 1) (h 2) (h 3) (h 4) (h 5) (h 6) (h 7))
                                                                    (fun b15 b16 b17 b18 b19 b20 b21 b22 ->
                                                                    if b15
                                                                    then None
                                                                    else 
                                                                    if b16
                                                                    then None
                                                                    else 
                                                                    if b17
                                                                    then 
                                                                    if b18
                                                                    then 
                                                                    if b19
                                                                    then None
                                                                    else 
                                                                    if b20
                                                                    then 
                                                                    if b21
                                                                    then 
                                                                    if b22
                                                                    then None
                                                                    else 
                                                                    (match s3 with
                                                                    | [] ->
                                                                    None
                                                                    | a2::s4 ->
                                                                    (* If this appears, you're using Ascii internals. Please don't *)
 (fun f c ->
  let n = Char.code c in
  let h i = (n land (1 lsl i)) <> 0 in
  f (h 0) (h 1) (h 2) (h 3) (h 4) (h 5) (h 6) (h 7))
                                                                    (fun b23 b24 b25 b26 b27 b28 b29 b30 ->
                                                                    if b23
                                                                    then 
                                                                    if b24
                                                                    then None
                                                                    else 
                                                                    if b25
                                                                    then None
                                                                    else 
                                                                    if b26
                                                                    then None
                                                                    else 
                                                                    if b27
                                                                    then None
                                                                    else 
                                                                    if b28
                                                                    then 
                                                                    if b29
                                                                    then 
                                                                    if b30
                                                                    then None
                                                                    else 
                                                                    (match s4 with
                                                                    | [] ->
                                                                    None
                                                                    | a3::s5 ->
                                                                    (* If this appears, you're using Ascii internals. Please don't *)
 (fun f c ->
  let n = Char.code c in
  let h i = (n land (1 lsl i)) <> 0 in
  f (h 0) (h 1) (h 2) (h 3) (h 4) (h 5) (h 6) (h 7))
                                                                    (fun b31 b32 b33 b34 b35 b36 b37 b38 ->
                                                                    if b31
                                                                    then 
                                                                    if b32
                                                                    then 
                                                                    if b33
                                                                    then None
                                                                    else 
                                                                    if b34
                                                                    then None
                                                                    else 
                                                                    if b35
                                                                    then 
                                                                    if b36
                                                                    then 
                                                                    if b37
                                                                    then 
                                                                    if b38
                                                                    then None
                                                                    else 
                                                                    (match s5 with
                                                                    | [] ->
                                                                    Some Atlas
                                                                    | _::_ ->
                                                                    None)
                                                                    else None
                                                                    else None
                                                                    else None
                                                                    else None
                                                                    else None)
                                                                    a3)
                                                                    else None
                                                                    else None
                                                                    else None)
                                                                    a2)
                                                                    else None
                                                                    else None
                                                                    else None
                                                                    else None)
                                                                    a1)
                                                                    else None
                                                                    else None
                                                                    else None
                                                              else None)
                                                    a0)
                                     else None
                                else None
       else None)
       a)
| SList _ -> None

(** val s_rendered : (char list * ctype) -> sexp **)

let s_rendered p =
  SList ((SAtom (fst p)) :: ((SAtom (ctype_name (snd p))) :: []))

(** val run_render : sexp -> sexp **)

let run_render a =
  match d_const a with
  | Some c -> s_result s_rendered (render c)
  | None -> bad_input

(** val run_render_v0 : sexp -> sexp **)

let run_render_v0 a =
  match d_const a with
  | Some c -> s_result s_rendered (render_v0 c)
  | None -> bad_input

(** val run_bank : sexp -> sexp **)

let run_bank = function
| SAtom _ -> bad_input
| SList l ->
  (match l with
   | [] -> bad_input
   | b :: l0 ->
     (match l0 with
      | [] -> bad_input
      | s :: l1 ->
        (match s with
         | SAtom ty ->
           (match l1 with
            | [] -> bad_input
            | s0 :: l2 ->
              (match s0 with
               | SAtom name ->
                 (match l2 with
                  | [] ->
                    (match d_backend b with
                     | Some b' -> s_result s_str (bank_line b' ty name)
                     | None -> bad_input)
                  | _ :: _ -> bad_input)
               | SList _ -> bad_input))
         | SList _ -> bad_input)))

(** val run_attribute : sexp -> sexp **)

let run_attribute = function
| SAtom _ -> bad_input
| SList l ->
  (match l with
   | [] -> bad_input
   | s :: l0 ->
     (match s with
      | SAtom obj ->
        (match l0 with
         | [] -> bad_input
         | s0 :: l1 ->
           (match s0 with
            | SAtom attr ->
              (match l1 with
               | [] -> s_result s_str (attribute_line obj attr)
               | _ :: _ -> bad_input)
            | SList _ -> bad_input))
      | SList _ -> bad_input))

(** val d_leaf : sexp -> (char list * char list) option **)

let d_leaf = function
| SAtom _ -> None
| SList l ->
  (match l with
   | [] -> None
   | s0 :: l0 ->
     (match s0 with
      | SAtom n0 ->
        (match l0 with
         | [] -> None
         | s1 :: l1 ->
           (match s1 with
            | SAtom v -> (match l1 with
                          | [] -> Some (n0, v)
                          | _ :: _ -> None)
            | SList _ -> None))
      | SList _ -> None))

(** val run_book : sexp -> sexp **)

let run_book = function
| SAtom _ -> bad_input
| SList l ->
  (match l with
   | [] -> bad_input
   | b :: l0 ->
     (match l0 with
      | [] -> bad_input
      | s :: l1 ->
        (match s with
         | SAtom tree ->
           (match l1 with
            | [] -> bad_input
            | s0 :: l2 ->
              (match s0 with
               | SAtom _ -> bad_input
               | SList ls ->
                 (match l2 with
                  | [] ->
                    (match d_backend b with
                     | Some b' ->
                       (match d_list d_leaf ls with
                        | Some leaves ->
                          SList
                            ((s_strs (book_lines b' tree leaves)) :: ((SAtom
                            (fill_line b' tree)) :: []))
                        | None -> bad_input)
                     | None -> bad_input)
                  | _ :: _ -> bad_input)))
         | SList _ -> bad_input)))

(** val run_literal_at : sexp -> sexp **)

let run_literal_at = function
| SAtom _ -> bad_input
| SList l ->
  (match l with
   | [] -> bad_input
   | s :: l0 ->
     (match s with
      | SAtom pre ->
        (match l0 with
         | [] -> bad_input
         | s0 :: l1 ->
           (match s0 with
            | SAtom line ->
              (match l1 with
               | [] ->
                 (match literal_at pre line with
                  | Some p ->
                    let (l2, rest) = p in
                    s_tag ('s'::('o'::('m'::('e'::[]))))
                      ((s_literal l2) :: ((SAtom rest) :: []))
                  | None -> s_tag ('n'::('o'::('n'::('e'::[])))) [])
               | _ :: _ -> bad_input)
            | SList _ -> bad_input))
      | SList _ -> bad_input))

(** val run_float_grammar : sexp -> sexp **)

let run_float_grammar = function
| SAtom t ->
  SList
    ((s_bool (py_float_repr t)) :: ((s_bool (py_float_finite t)) :: (
    (s_bool (cpp_float_lit (snd (strip_minus t)))) :: [])))
| SList _ -> bad_input

(** val dispatch : char list -> sexp -> sexp **)

let dispatch cmd arg =
  if eqb0 cmd ('c'::('1'::('5'::('.'::('g'::('e'::('n'::[])))))))
  then run_gen arg
  else if eqb0 cmd
            ('c'::('1'::('2'::('.'::('a'::('u'::('d'::('i'::('t'::[])))))))))
       then audit math_env documented
       else if eqb0 cmd
                 ('c'::('1'::('8'::('.'::('r'::('e'::('n'::('d'::('e'::('r'::[]))))))))))
            then run_render arg
            else if eqb0 cmd
                      ('c'::('1'::('8'::('.'::('r'::('e'::('n'::('d'::('e'::('r'::('_'::('v'::('0'::[])))))))))))))
                 then run_render_v0 arg
                 else if eqb0 cmd
                           ('c'::('1'::('8'::('.'::('l'::('e'::('x'::('_'::('p'::('r'::('e'::('f'::('i'::('x'::[]))))))))))))))
                      then run_lex_prefix arg
                      else if eqb0 cmd
                                ('c'::('1'::('8'::('.'::('l'::('i'::('t'::('e'::('r'::('a'::('l'::('_'::('a'::('t'::[]))))))))))))))
                           then run_literal_at arg
                           else if eqb0 cmd
                                     ('c'::('1'::('8'::('.'::('b'::('a'::('n'::('k'::[]))))))))
                                then run_bank arg
                                else if eqb0 cmd
                                          ('c'::('1'::('8'::('.'::('a'::('t'::('t'::('r'::('i'::('b'::('u'::('t'::('e'::[])))))))))))))
                                     then run_attribute arg
                                     else if eqb0 cmd
                                               ('c'::('1'::('8'::('.'::('b'::('o'::('o'::('k'::[]))))))))
                                          then run_book arg
                                          else if eqb0 cmd
                                                    ('c'::('1'::('8'::('.'::('f'::('l'::('o'::('a'::('t'::('_'::('g'::('r'::('a'::('m'::('m'::('a'::('r'::[])))))))))))))))))
                                               then run_float_grammar arg
                                               else s_tag
                                                      ('u'::('n'::('k'::('n'::('o'::('w'::('n'::('-'::('c'::('o'::('m'::('m'::('a'::('n'::('d'::[])))))))))))))))
                                                      ((SAtom cmd) :: [])
